//! Ledger: every balance of every account for every asset, decoded directly from the durable
//! storage of the simulated chain (bank module and every cw20-base instance), maintained
//! incrementally from the storage journal. Nothing is sampled: an account the harness never
//! heard of still shows up if any of its balances changes.

use std::collections::{BTreeMap, BTreeSet};

use crate::world::{JournalEntry, SimStorage};

pub fn native_key(denom: &str) -> String {
    format!("n:{}", denom)
}
pub fn cw20_key(addr: &str) -> String {
    format!("c:{}", addr)
}

#[derive(Clone, Debug, PartialEq)]
pub struct ContractMeta {
    pub addr: String,
    pub code_id: u64,
    pub creator: String,
    pub admin: Option<String>,
    pub label: String,
}

#[derive(Clone, Debug, PartialEq)]
pub struct BalChange {
    pub asset: String,
    pub account: String,
    pub old: u128,
    pub new: u128,
}

#[derive(Clone, Debug, Default)]
pub struct Delta {
    pub bal: Vec<BalChange>,
    pub supply: Vec<(String, u128, u128)>,
    pub contracts: Vec<(Option<ContractMeta>, Option<ContractMeta>)>,
    /// journal entries that are neither balances, supplies nor contract registrations
    pub other_writes: usize,
    pub raw_writes: usize,
}

impl Delta {
    pub fn is_empty(&self) -> bool {
        self.raw_writes == 0
    }
    pub fn bal_post(&self, asset: &str, account: &str) -> Option<u128> {
        self.bal
            .iter()
            .find(|c| c.asset == asset && c.account == account)
            .map(|c| c.new)
    }
    pub fn supply_post(&self, asset: &str) -> Option<u128> {
        self.supply.iter().find(|c| c.0 == asset).map(|c| c.2)
    }
}

#[derive(Clone, Debug, Default)]
pub struct Ledger {
    pub bal: BTreeMap<(String, String), u128>,
    pub supply: BTreeMap<String, u128>,
    pub contracts: BTreeMap<String, ContractMeta>,
    pub cw20s: BTreeSet<String>,
    pub cw20_code_id: u64,
}

enum Decoded {
    Bank(String),
    Contract(String),
    ContractKey(String, Vec<u8>),
    Other,
}

fn strip_ns<'a>(key: &'a [u8], ns: &[u8]) -> Option<&'a [u8]> {
    if key.len() < 2 + ns.len() {
        return None;
    }
    let l = ((key[0] as usize) << 8) | key[1] as usize;
    if l != ns.len() || &key[2..2 + l] != ns {
        return None;
    }
    Some(&key[2 + l..])
}

fn take_ns(key: &[u8]) -> Option<(&[u8], &[u8])> {
    if key.len() < 2 {
        return None;
    }
    let l = ((key[0] as usize) << 8) | key[1] as usize;
    if key.len() < 2 + l {
        return None;
    }
    Some((&key[2..2 + l], &key[2 + l..]))
}

fn decode_key(key: &[u8]) -> Decoded {
    if let Some(rest) = strip_ns(key, b"bank") {
        if let Some(addr) = strip_ns(rest, b"balances") {
            return Decoded::Bank(String::from_utf8_lossy(addr).to_string());
        }
        return Decoded::Other;
    }
    if let Some(rest) = strip_ns(key, b"wasm") {
        if let Some(addr) = strip_ns(rest, b"contracts") {
            return Decoded::Contract(String::from_utf8_lossy(addr).to_string());
        }
        if let Some((ns, ckey)) = take_ns(rest) {
            if let Some(addr) = ns.strip_prefix(b"contract_data/") {
                return Decoded::ContractKey(
                    String::from_utf8_lossy(addr).to_string(),
                    ckey.to_vec(),
                );
            }
        }
    }
    Decoded::Other
}

fn parse_coins(v: &Option<Vec<u8>>) -> BTreeMap<String, u128> {
    let mut out = BTreeMap::new();
    if let Some(bytes) = v {
        let coins: Vec<cosmwasm_std::Coin> =
            cosmwasm_std::from_slice(bytes).expect("bank balance record decodes");
        for c in coins {
            *out.entry(c.denom).or_insert(0) += c.amount.u128();
        }
    }
    out
}

fn parse_u128_json(v: &Option<Vec<u8>>) -> u128 {
    match v {
        None => 0,
        Some(bytes) => {
            let u: cosmwasm_std::Uint128 =
                cosmwasm_std::from_slice(bytes).expect("cw20 balance decodes");
            u.u128()
        }
    }
}

fn parse_supply(v: &Option<Vec<u8>>) -> u128 {
    match v {
        None => 0,
        Some(bytes) => {
            let t: cw20_base::state::TokenInfo =
                cosmwasm_std::from_slice(bytes).expect("token_info decodes");
            t.total_supply.u128()
        }
    }
}

fn parse_meta(addr: &str, v: &Option<Vec<u8>>) -> Option<ContractMeta> {
    v.as_ref().map(|bytes| {
        let d: cw_multi_test_contract_data::ContractDataLite =
            cosmwasm_std::from_slice(bytes).expect("contract data decodes");
        ContractMeta {
            addr: addr.to_string(),
            code_id: d.code_id as u64,
            creator: d.creator,
            admin: d.admin,
            label: d.label,
        }
    })
}

mod cw_multi_test_contract_data {
    use serde::Deserialize;
    #[derive(Deserialize)]
    pub struct ContractDataLite {
        pub code_id: usize,
        pub creator: String,
        pub admin: Option<String>,
        pub label: String,
    }
}

impl Ledger {
    pub fn new(cw20_code_id: u64) -> Ledger {
        Ledger {
            cw20_code_id,
            ..Default::default()
        }
    }

    /// Build from scratch out of the whole storage (used at start and by the self-check).
    pub fn from_storage(store: &SimStorage, cw20_code_id: u64) -> Ledger {
        let mut l = Ledger::new(cw20_code_id);
        let mut journal = vec![];
        store.for_each(|k, v| {
            journal.push(JournalEntry {
                key: k.to_vec(),
                old: None,
                new: Some(v.to_vec()),
            })
        });
        // contracts first so cw20 instances are known before their keys are decoded
        journal.sort_by_key(|e| match decode_key(&e.key) {
            Decoded::Contract(_) => 0,
            _ => 1,
        });
        let d = l.decode(&journal);
        l.apply(&d);
        l
    }

    pub fn get(&self, asset: &str, account: &str) -> u128 {
        // avoid allocating for lookups: BTreeMap<(String,String)> needs owned keys; accept it
        *self
            .bal
            .get(&(asset.to_string(), account.to_string()))
            .unwrap_or(&0)
    }
    pub fn supply_of(&self, asset: &str) -> u128 {
        *self.supply.get(asset).unwrap_or(&0)
    }

    /// Decode a journal (in commit order) against the current ledger without changing it.
    pub fn decode(&self, journal: &[JournalEntry]) -> Delta {
        let mut bal: BTreeMap<(String, String), (u128, u128)> = BTreeMap::new();
        let mut supply: BTreeMap<String, (u128, u128)> = BTreeMap::new();
        let mut contracts = vec![];
        let mut new_cw20: BTreeSet<String> = BTreeSet::new();
        let mut other = 0usize;
        for e in journal {
            match decode_key(&e.key) {
                Decoded::Bank(account) => {
                    let o = parse_coins(&e.old);
                    let n = parse_coins(&e.new);
                    let denoms: BTreeSet<&String> = o.keys().chain(n.keys()).collect();
                    for d in denoms {
                        let ov = *o.get(d).unwrap_or(&0);
                        let nv = *n.get(d).unwrap_or(&0);
                        if ov != nv {
                            let k = (native_key(d), account.clone());
                            let ent = bal.entry(k).or_insert((ov, nv));
                            ent.1 = nv;
                        }
                    }
                }
                Decoded::Contract(addr) => {
                    let o = parse_meta(&addr, &e.old);
                    let n = parse_meta(&addr, &e.new);
                    if let Some(m) = &n {
                        if m.code_id == self.cw20_code_id {
                            new_cw20.insert(addr.clone());
                        }
                    }
                    contracts.push((o, n));
                }
                Decoded::ContractKey(addr, ckey) => {
                    let is_cw20 = self.cw20s.contains(&addr) || new_cw20.contains(&addr);
                    if is_cw20 {
                        if let Some(holder) = strip_ns(&ckey, b"balance") {
                            let holder = String::from_utf8_lossy(holder).to_string();
                            let ov = parse_u128_json(&e.old);
                            let nv = parse_u128_json(&e.new);
                            let k = (cw20_key(&addr), holder);
                            let ent = bal.entry(k).or_insert((ov, nv));
                            ent.1 = nv;
                            continue;
                        }
                        if ckey == b"token_info" {
                            let ov = parse_supply(&e.old);
                            let nv = parse_supply(&e.new);
                            let ent = supply.entry(cw20_key(&addr)).or_insert((ov, nv));
                            ent.1 = nv;
                            continue;
                        }
                    }
                    other += 1;
                }
                Decoded::Other => other += 1,
            }
        }
        Delta {
            bal: bal
                .into_iter()
                .filter(|(_, (o, n))| o != n)
                .map(|((asset, account), (old, new))| BalChange {
                    asset,
                    account,
                    old,
                    new,
                })
                .collect(),
            supply: supply
                .into_iter()
                .filter(|(_, (o, n))| o != n)
                .map(|(a, (o, n))| (a, o, n))
                .collect(),
            contracts,
            other_writes: other,
            raw_writes: journal.len(),
        }
    }

    pub fn apply(&mut self, d: &Delta) {
        for (_, n) in &d.contracts {
            if let Some(m) = n {
                if m.code_id == self.cw20_code_id {
                    self.cw20s.insert(m.addr.clone());
                }
                self.contracts.insert(m.addr.clone(), m.clone());
            }
        }
        for c in &d.bal {
            if c.new == 0 {
                self.bal.remove(&(c.asset.clone(), c.account.clone()));
            } else {
                self.bal
                    .insert((c.asset.clone(), c.account.clone()), c.new);
            }
        }
        for (a, _, n) in &d.supply {
            // zero and absent are the same thing (a fresh decode never sees a zero -> zero write)
            if *n == 0 {
                self.supply.remove(a);
            } else {
                self.supply.insert(a.clone(), *n);
            }
        }
    }

    /// sum of all balances of an asset
    pub fn total(&self, asset: &str) -> u128 {
        self.bal
            .iter()
            .filter(|((a, _), _)| a == asset)
            .map(|(_, v)| *v)
            .sum()
    }
}

/// pre/post view of one step: `ledger` is the state before the step, `delta` what it committed
pub struct View<'a> {
    pub ledger: &'a Ledger,
    pub delta: &'a Delta,
}

impl<'a> View<'a> {
    pub fn pre(&self, asset: &str, account: &str) -> u128 {
        self.ledger.get(asset, account)
    }
    pub fn post(&self, asset: &str, account: &str) -> u128 {
        self.delta
            .bal_post(asset, account)
            .unwrap_or_else(|| self.ledger.get(asset, account))
    }
    pub fn pre_supply(&self, asset: &str) -> u128 {
        self.ledger.supply_of(asset)
    }
    pub fn post_supply(&self, asset: &str) -> u128 {
        self.delta
            .supply_post(asset)
            .unwrap_or_else(|| self.ledger.supply_of(asset))
    }
}
