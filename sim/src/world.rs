//! The simulated chain: cw-multi-test App assembled from our own storage, bank and wasm
//! seams, running the real factory / pair / router / cw20-base code.

use std::cell::{Cell, RefCell};
use std::collections::BTreeMap;
use std::ops::Bound;
use std::rc::Rc;

use anyhow::{bail, Result as AnyResult};
use cosmwasm_std::testing::MockApi;
use cosmwasm_std::{
    to_binary, Addr, Api, BankMsg, BankQuery, Binary, BlockInfo, Coin, CustomQuery, Deps, DepsMut,
    Empty, Env, GovMsg, IbcMsg, IbcQuery, MessageInfo, Order, Querier, Record, Response, StdError,
    StdResult, Storage, Timestamp, Uint128, WasmMsg, WasmQuery,
};
use cw_multi_test::{
    App, AppBuilder, AppResponse, Bank, BankKeeper, BankSudo, Contract, ContractWrapper,
    CosmosRouter, DistributionKeeper, FailingModule, Module, StakeKeeper, Wasm, WasmKeeper,
};
use schemars::JsonSchema;
use serde::de::DeserializeOwned;
use serde::{Deserialize, Serialize};

// ---------------------------------------------------------------------------------------
// SimStorage: the whole durable state of the chain, with a journal of committed writes.
// ---------------------------------------------------------------------------------------

#[derive(Clone, Debug, PartialEq)]
pub struct JournalEntry {
    pub key: Vec<u8>,
    pub old: Option<Vec<u8>>,
    pub new: Option<Vec<u8>>,
}

#[derive(Default)]
struct StoreInner {
    map: BTreeMap<Vec<u8>, Vec<u8>>,
    journal: Vec<JournalEntry>,
}

#[derive(Clone, Default)]
pub struct SimStorage(Rc<RefCell<StoreInner>>);

impl SimStorage {
    pub fn new() -> Self {
        Self::default()
    }
    /// take the journal of writes committed since the last call
    pub fn take_journal(&self) -> Vec<JournalEntry> {
        std::mem::take(&mut self.0.borrow_mut().journal)
    }
    pub fn journal_len(&self) -> usize {
        self.0.borrow().journal.len()
    }
    /// undo the given journal (entries in commit order)
    pub fn undo(&self, journal: &[JournalEntry]) {
        let mut s = self.0.borrow_mut();
        for e in journal.iter().rev() {
            match &e.old {
                Some(v) => {
                    s.map.insert(e.key.clone(), v.clone());
                }
                None => {
                    s.map.remove(&e.key);
                }
            }
        }
    }
    pub fn snapshot(&self) -> BTreeMap<Vec<u8>, Vec<u8>> {
        self.0.borrow().map.clone()
    }
    pub fn restore(&self, snap: BTreeMap<Vec<u8>, Vec<u8>>) {
        let mut s = self.0.borrow_mut();
        s.map = snap;
        s.journal.clear();
    }
    pub fn len(&self) -> usize {
        self.0.borrow().map.len()
    }
    /// FNV-1a 64 over all keys and values (whole-world fingerprint)
    pub fn fingerprint(&self) -> u64 {
        let s = self.0.borrow();
        let mut h: u64 = 0xcbf29ce484222325;
        let mut feed = |b: &[u8]| {
            for x in b {
                h ^= *x as u64;
                h = h.wrapping_mul(0x100000001b3);
            }
            h ^= 0xff;
            h = h.wrapping_mul(0x100000001b3);
        };
        for (k, v) in s.map.iter() {
            feed(k);
            feed(v);
        }
        h
    }
    pub fn for_each<F: FnMut(&[u8], &[u8])>(&self, mut f: F) {
        for (k, v) in self.0.borrow().map.iter() {
            f(k, v);
        }
    }
    pub fn get_raw(&self, key: &[u8]) -> Option<Vec<u8>> {
        self.0.borrow().map.get(key).cloned()
    }
}

impl Storage for SimStorage {
    fn get(&self, key: &[u8]) -> Option<Vec<u8>> {
        self.0.borrow().map.get(key).cloned()
    }
    fn range<'a>(
        &'a self,
        start: Option<&[u8]>,
        end: Option<&[u8]>,
        order: Order,
    ) -> Box<dyn Iterator<Item = Record> + 'a> {
        let s = self.0.borrow();
        if let (Some(a), Some(b)) = (start, end) {
            if a > b {
                return Box::new(std::iter::empty());
            }
        }
        let lo = start.map_or(Bound::Unbounded, |x| Bound::Included(x.to_vec()));
        let hi = end.map_or(Bound::Unbounded, |x| Bound::Excluded(x.to_vec()));
        let mut v: Vec<Record> = s
            .map
            .range((lo, hi))
            .map(|(k, v)| (k.clone(), v.clone()))
            .collect();
        if let Order::Descending = order {
            v.reverse();
        }
        Box::new(v.into_iter())
    }
    fn set(&mut self, key: &[u8], value: &[u8]) {
        let mut s = self.0.borrow_mut();
        let old = s.map.insert(key.to_vec(), value.to_vec());
        if old.as_deref() != Some(value) {
            s.journal.push(JournalEntry {
                key: key.to_vec(),
                old,
                new: Some(value.to_vec()),
            });
        }
    }
    fn remove(&mut self, key: &[u8]) {
        let mut s = self.0.borrow_mut();
        let old = s.map.remove(key);
        if old.is_some() {
            s.journal.push(JournalEntry {
                key: key.to_vec(),
                old,
                new: None,
            });
        }
    }
}

// ---------------------------------------------------------------------------------------
// Fault control shared by the wasm and bank wrappers: numbers every dispatched message of
// the current transaction and fails message number `fail_at` when asked to.
// ---------------------------------------------------------------------------------------

#[derive(Clone, Debug, Serialize, PartialEq)]
pub struct Dispatch {
    pub n: u32,
    pub depth: u32,
    pub sender: String,
    pub target: String,
    pub kind: String,
    pub ok: bool,
    pub injected: bool,
}

#[derive(Default)]
pub struct FaultCtl {
    counter: Cell<u32>,
    depth: Cell<u32>,
    fail_at: Cell<Option<u32>>,
    fired: Cell<bool>,
    trace: RefCell<Vec<Dispatch>>,
}

impl FaultCtl {
    pub fn begin_tx(&self, fail_at: Option<u32>) {
        self.counter.set(0);
        self.depth.set(0);
        self.fail_at.set(fail_at);
        self.fired.set(false);
        self.trace.borrow_mut().clear();
    }
    pub fn end_tx(&self) -> (Vec<Dispatch>, bool) {
        self.fail_at.set(None);
        self.depth.set(0);
        (std::mem::take(&mut *self.trace.borrow_mut()), self.fired.get())
    }
    fn enter(&self, sender: &Addr, target: String, kind: String) -> (usize, bool) {
        let n = self.counter.get() + 1;
        self.counter.set(n);
        let inject = self.fail_at.get() == Some(n);
        if inject {
            self.fired.set(true);
        }
        let mut t = self.trace.borrow_mut();
        t.push(Dispatch {
            n,
            depth: self.depth.get(),
            sender: sender.to_string(),
            target,
            kind,
            ok: false,
            injected: inject,
        });
        self.depth.set(self.depth.get() + 1);
        (t.len() - 1, inject)
    }
    fn leave(&self, idx: usize, ok: bool) {
        self.depth.set(self.depth.get().saturating_sub(1));
        if let Some(d) = self.trace.borrow_mut().get_mut(idx) {
            d.ok = ok;
        }
    }
}

fn wasm_kind(msg: &WasmMsg) -> (String, String) {
    match msg {
        WasmMsg::Execute {
            contract_addr, msg, ..
        } => {
            // first JSON key of the message is its variant name
            let s = String::from_utf8_lossy(msg.as_slice());
            let mut variant = s
                .split('"')
                .nth(1)
                .map(|x| x.to_string())
                .unwrap_or_default();
            if variant == "receive" {
                // a cw20 hook: name the inner hook variant too
                #[derive(Deserialize)]
                struct R {
                    receive: cw20::Cw20ReceiveMsg,
                }
                if let Ok(r) = cosmwasm_std::from_slice::<R>(msg.as_slice()) {
                    let inner = String::from_utf8_lossy(r.receive.msg.as_slice()).to_string();
                    if let Some(v) = inner.split('"').nth(1) {
                        variant = format!("receive:{}", v);
                    }
                }
            }
            (contract_addr.clone(), format!("exec:{}", variant))
        }
        WasmMsg::Instantiate { code_id, .. } => (format!("code{}", code_id), "instantiate".into()),
        WasmMsg::Migrate { contract_addr, .. } => (contract_addr.clone(), "migrate".into()),
        WasmMsg::UpdateAdmin { contract_addr, .. } => (contract_addr.clone(), "update_admin".into()),
        WasmMsg::ClearAdmin { contract_addr } => (contract_addr.clone(), "clear_admin".into()),
        _ => ("?".into(), "other".into()),
    }
}

pub struct FaultyWasm {
    pub inner: WasmKeeper<Empty, Empty>,
    pub ctl: Rc<FaultCtl>,
}

impl Wasm<Empty, Empty> for FaultyWasm {
    fn query(
        &self,
        api: &dyn Api,
        storage: &dyn Storage,
        querier: &dyn Querier,
        block: &BlockInfo,
        request: WasmQuery,
    ) -> AnyResult<Binary> {
        self.inner.query(api, storage, querier, block, request)
    }

    fn execute(
        &self,
        api: &dyn Api,
        storage: &mut dyn Storage,
        router: &dyn CosmosRouter<ExecC = Empty, QueryC = Empty>,
        block: &BlockInfo,
        sender: Addr,
        msg: WasmMsg,
    ) -> AnyResult<AppResponse> {
        let (target, kind) = wasm_kind(&msg);
        let (idx, inject) = self.ctl.enter(&sender, target, kind);
        if inject {
            self.ctl.leave(idx, false);
            bail!("injected fault: message {} failed", idx + 1);
        }
        let r = self.inner.execute(api, storage, router, block, sender, msg);
        self.ctl.leave(idx, r.is_ok());
        r
    }

    fn sudo(
        &self,
        api: &dyn Api,
        contract_addr: Addr,
        storage: &mut dyn Storage,
        router: &dyn CosmosRouter<ExecC = Empty, QueryC = Empty>,
        block: &BlockInfo,
        msg: Binary,
    ) -> AnyResult<AppResponse> {
        self.inner
            .sudo(api, contract_addr, storage, router, block, msg)
    }
}

pub struct FaultyBank {
    pub inner: BankKeeper,
    pub ctl: Rc<FaultCtl>,
}

impl Bank for FaultyBank {}

impl Module for FaultyBank {
    type ExecT = BankMsg;
    type QueryT = BankQuery;
    type SudoT = BankSudo;

    fn execute<ExecC, QueryC>(
        &self,
        api: &dyn Api,
        storage: &mut dyn Storage,
        router: &dyn CosmosRouter<ExecC = ExecC, QueryC = QueryC>,
        block: &BlockInfo,
        sender: Addr,
        msg: BankMsg,
    ) -> AnyResult<AppResponse>
    where
        ExecC: std::fmt::Debug + Clone + PartialEq + JsonSchema + DeserializeOwned + 'static,
        QueryC: CustomQuery + DeserializeOwned + 'static,
    {
        let (target, kind) = match &msg {
            BankMsg::Send { to_address, .. } => (to_address.clone(), "bank:send".to_string()),
            BankMsg::Burn { .. } => ("".to_string(), "bank:burn".to_string()),
            _ => ("".to_string(), "bank:other".to_string()),
        };
        let (idx, inject) = self.ctl.enter(&sender, target, kind);
        if inject {
            self.ctl.leave(idx, false);
            bail!("injected fault: message {} failed", idx + 1);
        }
        let r = self.inner.execute(api, storage, router, block, sender, msg);
        self.ctl.leave(idx, r.is_ok());
        r
    }

    fn sudo<ExecC, QueryC>(
        &self,
        api: &dyn Api,
        storage: &mut dyn Storage,
        router: &dyn CosmosRouter<ExecC = ExecC, QueryC = QueryC>,
        block: &BlockInfo,
        msg: BankSudo,
    ) -> AnyResult<AppResponse>
    where
        ExecC: std::fmt::Debug + Clone + PartialEq + JsonSchema + DeserializeOwned + 'static,
        QueryC: CustomQuery + DeserializeOwned + 'static,
    {
        self.inner.sudo(api, storage, router, block, msg)
    }

    fn query(
        &self,
        api: &dyn Api,
        storage: &dyn Storage,
        querier: &dyn Querier,
        block: &BlockInfo,
        request: BankQuery,
    ) -> AnyResult<Binary> {
        self.inner.query(api, storage, querier, block, request)
    }
}

pub type SimApp = App<
    FaultyBank,
    MockApi,
    SimStorage,
    FailingModule<Empty, Empty, Empty>,
    FaultyWasm,
    StakeKeeper,
    DistributionKeeper,
    FailingModule<IbcMsg, IbcQuery, Empty>,
    FailingModule<GovMsg, Empty, Empty>,
>;

// ---------------------------------------------------------------------------------------
// rogue20: a harness contract playing a hostile counter-party. It forwards arbitrary
// messages (so that it is the `info.sender` the callee sees, e.g. a forged cw20 `Receive`)
// and answers cw20-looking queries with lies.
// ---------------------------------------------------------------------------------------

#[derive(Serialize, Deserialize, Clone, Debug, PartialEq, JsonSchema)]
#[serde(rename_all = "snake_case")]
pub enum RogueExec {
    Forward {
        target: String,
        msg: Binary,
        funds: Vec<Coin>,
    },
    /// accept anything sent to us (e.g. cw20 Receive hooks) so tokens can be parked here
    Receive(cw20::Cw20ReceiveMsg),
    /// abort the transaction (used as the poison message)
    Poison {},
}

#[derive(Serialize, Deserialize, Clone, Debug, PartialEq, JsonSchema)]
pub struct RogueInit {
    /// the real factory: the rogue answers factory-style queries by asking it (a transparent
    /// proxy), so it can pose as "a factory that lists this pair" toward anybody who asks it
    pub factory: Option<String>,
}

#[derive(Serialize, Deserialize, Clone, Debug, PartialEq, JsonSchema)]
#[serde(rename_all = "snake_case")]
pub enum RogueQuery {
    // cw20-looking queries: answered with lies
    Balance { address: String },
    TokenInfo {},
    // factory-looking queries: proxied to the real factory
    Config {},
    Pair { asset_infos: [haloswap::asset::AssetInfo; 2] },
    Pairs { start_after: Option<[haloswap::asset::AssetInfo; 2]>, limit: Option<u32> },
    NativeTokenDecimals { denom: String },
}

const ROGUE_FACTORY: cw_storage_plus::Item<String> = cw_storage_plus::Item::new("rogue_factory");

fn rogue_instantiate(d: DepsMut, _e: Env, _i: MessageInfo, m: RogueInit) -> StdResult<Response> {
    if let Some(f) = m.factory {
        ROGUE_FACTORY.save(d.storage, &f)?;
    }
    Ok(Response::new())
}
fn rogue_execute(_d: DepsMut, _e: Env, _i: MessageInfo, m: RogueExec) -> StdResult<Response> {
    match m {
        RogueExec::Forward { target, msg, funds } => Ok(Response::new().add_message(WasmMsg::Execute {
            contract_addr: target,
            msg,
            funds,
        })),
        RogueExec::Receive(_) => Ok(Response::new()),
        RogueExec::Poison {} => Err(StdError::generic_err("poison")),
    }
}
fn rogue_query(d: Deps, _e: Env, m: RogueQuery) -> StdResult<Binary> {
    let proxy = |q: haloswap::factory::QueryMsg| -> StdResult<Binary> {
        let f = ROGUE_FACTORY.load(d.storage)?;
        let raw = cosmwasm_std::to_vec(&cosmwasm_std::QueryRequest::<Empty>::Wasm(WasmQuery::Smart {
            contract_addr: f,
            msg: to_binary(&q)?,
        }))?;
        match d.querier.raw_query(&raw) {
            cosmwasm_std::SystemResult::Ok(cosmwasm_std::ContractResult::Ok(b)) => Ok(b),
            cosmwasm_std::SystemResult::Ok(cosmwasm_std::ContractResult::Err(e)) => Err(StdError::generic_err(e)),
            cosmwasm_std::SystemResult::Err(e) => Err(StdError::generic_err(e.to_string())),
        }
    };
    match m {
        RogueQuery::Balance { .. } => to_binary(&cw20::BalanceResponse {
            balance: Uint128::new(1u128 << 100),
        }),
        RogueQuery::TokenInfo {} => to_binary(&cw20::TokenInfoResponse {
            name: "rogue".into(),
            symbol: "RGE".into(),
            decimals: 6,
            total_supply: Uint128::new(1u128 << 100),
        }),
        RogueQuery::Config {} => proxy(haloswap::factory::QueryMsg::Config {}),
        RogueQuery::Pair { asset_infos } => proxy(haloswap::factory::QueryMsg::Pair { asset_infos }),
        RogueQuery::Pairs { start_after, limit } => proxy(haloswap::factory::QueryMsg::Pairs { start_after, limit }),
        RogueQuery::NativeTokenDecimals { denom } => proxy(haloswap::factory::QueryMsg::NativeTokenDecimals { denom }),
    }
}

pub const CODE_CW20: u64 = 1;
pub const CODE_PAIR: u64 = 2;
pub const CODE_FACTORY: u64 = 3;
pub const CODE_ROUTER: u64 = 4;
pub const CODE_ROGUE: u64 = 5;
/// the same pair code registered a second time: migration target ("restart on the same code")
pub const CODE_PAIR_V2: u64 = 6;
/// the factory and router code registered a second time: migration targets
pub const CODE_FACTORY_V2: u64 = 7;
pub const CODE_ROUTER_V2: u64 = 8;

fn cw20_code() -> Box<dyn Contract<Empty>> {
    Box::new(ContractWrapper::new(
        cw20_base::contract::execute,
        cw20_base::contract::instantiate,
        cw20_base::contract::query,
    ))
}
fn pair_code() -> Box<dyn Contract<Empty>> {
    Box::new(
        ContractWrapper::new(
            halo_pair::contract::execute,
            halo_pair::contract::instantiate,
            halo_pair::contract::query,
        )
        .with_reply(halo_pair::contract::reply)
        .with_migrate(halo_pair::contract::migrate),
    )
}
fn factory_code() -> Box<dyn Contract<Empty>> {
    Box::new(
        ContractWrapper::new(
            halo_factory::contract::execute,
            halo_factory::contract::instantiate,
            halo_factory::contract::query,
        )
        .with_reply(halo_factory::contract::reply)
        .with_migrate(halo_factory::contract::migrate),
    )
}
fn router_code() -> Box<dyn Contract<Empty>> {
    Box::new(
        ContractWrapper::new(
            halo_router::contract::execute,
            halo_router::contract::instantiate,
            halo_router::contract::query,
        )
        .with_migrate(halo_router::contract::migrate),
    )
}
fn rogue_code() -> Box<dyn Contract<Empty>> {
    Box::new(ContractWrapper::new(rogue_execute, rogue_instantiate, rogue_query))
}

pub struct Chain {
    pub app: SimApp,
    pub store: SimStorage,
    pub ctl: Rc<FaultCtl>,
}

pub fn start_block() -> BlockInfo {
    BlockInfo {
        height: 1000,
        time: Timestamp::from_seconds(1_700_000_000),
        chain_id: "halosim".into(),
    }
}

/// Build the chain with all code ids stored and the given native balances minted.
pub fn build_chain(native_balances: &[(String, Vec<Coin>)]) -> Chain {
    let store = SimStorage::new();
    let ctl = Rc::new(FaultCtl::default());
    let mut keeper: WasmKeeper<Empty, Empty> = WasmKeeper::new();
    assert_eq!(keeper.store_code(cw20_code()) as u64, CODE_CW20);
    assert_eq!(keeper.store_code(pair_code()) as u64, CODE_PAIR);
    assert_eq!(keeper.store_code(factory_code()) as u64, CODE_FACTORY);
    assert_eq!(keeper.store_code(router_code()) as u64, CODE_ROUTER);
    assert_eq!(keeper.store_code(rogue_code()) as u64, CODE_ROGUE);
    assert_eq!(keeper.store_code(pair_code()) as u64, CODE_PAIR_V2);
    assert_eq!(keeper.store_code(factory_code()) as u64, CODE_FACTORY_V2);
    assert_eq!(keeper.store_code(router_code()) as u64, CODE_ROUTER_V2);
    let wasm = FaultyWasm {
        inner: keeper,
        ctl: ctl.clone(),
    };
    let bank = FaultyBank {
        inner: BankKeeper::new(),
        ctl: ctl.clone(),
    };
    let app = AppBuilder::new()
        .with_storage(store.clone())
        .with_bank(bank)
        .with_wasm::<FailingModule<Empty, Empty, Empty>, _>(wasm)
        .with_block(start_block())
        .build(|router, _api, storage| {
            for (who, coins) in native_balances {
                if !coins.is_empty() {
                    router
                        .bank
                        .inner
                        .init_balance(storage, &Addr::unchecked(who), coins.clone())
                        .unwrap();
                }
            }
        });
    store.take_journal();
    Chain { app, store, ctl }
}
