//! Audits and probes: pure queries and dry-runs evaluated by oracles (C06, C12, C14, C19).

use std::collections::BTreeSet;

use cosmwasm_std::{to_binary, Binary, Uint128};
use cw20::Cw20ReceiveMsg;
use haloswap::asset::{Asset, AssetInfo, PairInfo};
use haloswap::pair::{ReverseSimulationResponse, SimulationResponse};

use crate::bignat::{n, z, N, Z};
use crate::cover::{lg, Cover};
use crate::ops::*;
use crate::orc_factory::{classify, role_of, satisfies};
use crate::orc_pair::c06_check;
use crate::sim::*;
use crate::step::*;
use crate::world::CODE_PAIR_V2;

fn out(tag: &'static str) -> StepOut {
    StepOut {
        outcome_tag: tag,
        err: String::new(),
        dispatches: 0,
        writes: 0,
    }
}

impl Sim {
    pub fn pair_simulation(&self, p: &PairModel, offer: &AssetInfo, amount: u128) -> Result<SimulationResponse, String> {
        self.query(
            &p.addr,
            &haloswap::pair::QueryMsg::Simulation {
                offer_asset: Asset {
                    info: offer.clone(),
                    amount: Uint128::new(amount),
                },
            },
        )
    }
    pub fn pair_reverse(&self, p: &PairModel, ask: &AssetInfo, amount: u128) -> Result<ReverseSimulationResponse, String> {
        self.query(
            &p.addr,
            &haloswap::pair::QueryMsg::ReverseSimulation {
                ask_asset: Asset {
                    info: ask.clone(),
                    amount: Uint128::new(amount),
                },
            },
        )
    }

    pub fn audit(&mut self, ev: &Event, sender: &str, cov: &mut Cover) -> StepOut {
        cov.tx(ev.op.kind(), "audit");
        match &ev.op {
            Op::Quote { pair, offer, amounts } => self.audit_quote(ev, *pair, offer, amounts, cov),
            Op::QuoteThenSwap { pair, offer, guarded } => self.audit_quote_then_swap(ev, sender, *pair, offer, *guarded, cov),
            Op::ReverseQuote { pair, ask } => self.audit_reverse(ev, *pair, ask, cov),
            Op::RouterQuote { hops, amount, reverse } => {
                self.audit_router_quote(ev, hops, amount.u128(), *reverse, cov)
            }
            Op::Walk { limit, flip } => self.audit_walk(ev, *limit, *flip, cov),
            Op::AuditRegistry {} => {
                crate::orc_factory::audit_registry(self, ev.seq, cov);
                out("audit")
            }
            Op::AuthMatrix {} => self.audit_matrix(ev, cov),
            _ => out("skip"),
        }
    }

    fn audit_quote(&mut self, ev: &Event, pair: usize, offer: &AssetRef, amounts: &[Uint128], cov: &mut Cover) -> StepOut {
        let p = match self.model.std_pair(pair) {
            Some(p) => p.clone(),
            None => return out("skip"),
        };
        let (info, ko) = match (self.model.asset_info(offer), self.model.asset_key(offer)) {
            (Some(i), Some(k)) => (i, k),
            _ => return out("skip"),
        };
        let oi = match p.index_of_key(&ko) {
            Some(i) => i,
            None => return out("skip"),
        };
        let x = self.ledger.get(&p.keys[oi], &p.addr);
        let y = self.ledger.get(&p.keys[1 - oi], &p.addr);
        let mut prev: Option<(u128, u128)> = None;
        for a in amounts {
            let a = a.u128();
            match self.pair_simulation(&p, &info, a) {
                Ok(r) => {
                    c06_check(
                        cov,
                        ev.seq,
                        "query",
                        x,
                        y,
                        a,
                        &p.commission,
                        r.return_amount.u128(),
                        r.spread_amount.u128(),
                        r.commission_amount.u128(),
                    );
                    if let Some((pa, pn)) = prev {
                        if a > pa {
                            cov.eval("C06", "e");
                            if r.return_amount.u128() < pn {
                                cov.violate(
                                    "C06",
                                    "e",
                                    "not-monotone",
                                    ev.seq,
                                    format!(
                                        "x={} y={} c={}: offer {} -> {} but offer {} -> {}",
                                        x, y, p.commission, pa, pn, a, r.return_amount
                                    ),
                                );
                            }
                        }
                    }
                    prev = Some((a, r.return_amount.u128()));
                }
                Err(_) => {
                    cov.reach("C06.quote_failed");
                }
            }
        }
        out("audit")
    }

    fn audit_quote_then_swap(&mut self, ev: &Event, sender: &str, pair: usize, offer: &AssetAmt, guarded: u8, cov: &mut Cover) -> StepOut {
        let p = match self.model.std_pair(pair) {
            Some(p) => p.clone(),
            None => return out("skip"),
        };
        let info = match self.model.asset_info(&offer.asset) {
            Some(i) => i,
            None => return out("skip"),
        };
        let a = offer.amount.u128();
        let q = match self.pair_simulation(&p, &info, a) {
            Ok(q) => q,
            Err(e) => {
                cov.reach("C12.sim_failed");
                // "whenever that swap succeeds": a swap that goes through although its quote failed
                let op = match &offer.asset {
                    AssetRef::Native(d) => Op::SwapExec {
                        pair,
                        offer: offer.clone(),
                        funds: vec![Fund { denom: d.clone(), amount: offer.amount }],
                        belief: None,
                        max_spread: None,
                        to: None,
                    },
                    other => Op::SwapHook {
                        pair,
                        via: Via::Cw20(other.clone()),
                        sent: offer.amount,
                        offer: offer.clone(),
                        belief: None,
                        max_spread: None,
                        to: None,
                        from: None,
                    },
                };
                let (o, _d, _t) = self.dry_run(sender, &op, None);
                if o.is_ok() {
                    cov.eval("C12", "a");
                    cov.violate(
                        "C12",
                        "a",
                        "simulation-fails-where-swap-succeeds",
                        ev.seq,
                        format!("pair {} offer {} {:?}: the swap succeeds but its simulation fails: {}", p.addr, a, offer.asset, e),
                    );
                }
                return out("audit");
            }
        };
        // guards that the quoted trade satisfies with room to spare
        let (belief, max_spread) = match guarded {
            1 => (None, Some(cosmwasm_std::Decimal::one())),
            2 if !q.return_amount.is_zero() => {
                let oi = self.model.asset_key(&offer.asset).and_then(|k| p.index_of_key(&k)).unwrap_or(0);
                let (od, rd) = (p.decimals[oi], p.decimals[1 - oi]);
                let (o_n, r_n) = if od != 255 && rd != 255 && od > rd {
                    (n(a), &n(q.return_amount.u128()) * &N::pow10((od - rd) as u32))
                } else if od != 255 && rd != 255 {
                    (&n(a) * &N::pow10((rd - od) as u32), n(q.return_amount.u128()))
                } else {
                    (n(a), n(q.return_amount.u128()))
                };
                let price = (&o_n * &N::e18()).div_floor(&r_n);
                if price.is_zero() || price.bits() > 120 {
                    (None, None)
                } else {
                    (
                        Some(crate::gen_a::atoms_to_decimal(&price)),
                        Some(cosmwasm_std::Decimal::percent(50)),
                    )
                }
            }
            _ => (None, None),
        };
        let op = match &offer.asset {
            AssetRef::Native(d) => Op::SwapExec {
                pair,
                offer: offer.clone(),
                funds: vec![Fund {
                    denom: d.clone(),
                    amount: offer.amount,
                }],
                belief,
                max_spread,
                to: None,
            },
            other => Op::SwapHook {
                pair,
                via: Via::Cw20(other.clone()),
                sent: offer.amount,
                offer: offer.clone(),
                belief,
                max_spread,
                to: None,
                from: None,
            },
        };
        let ka = match self.model.asset_key(&offer.asset).and_then(|k| p.index_of_key(&k)) {
            Some(i) => p.keys[1 - i].clone(),
            None => return out("skip"),
        };
        let pre_recv = self.ledger.get(&ka, sender);
        let (o, delta, _t) = self.dry_run(sender, &op, None);
        if !o.is_ok() {
            cov.reach("C12.swap_failed_after_quote");
            return out("audit");
        }
        cov.eval("C12", "a");
        cov.case(
            "C12",
            format!(
                "simexec|g{}|{}|{}|a^{}|n^{}",
                guarded,
                p.kind(),
                if matches!(offer.asset, AssetRef::Native(_)) { "native" } else { "cw20" },
                lg(a) / 8,
                lg(q.return_amount.u128()) / 8
            ),
        );
        let attrs = wasm_attrs(o.responses(), &p.addr, "swap");
        let gained = delta.bal_post(&ka, sender).map(|v| Z::diff(v, pre_recv)).unwrap_or_else(Z::zero);
        let mut bad = vec![];
        if gained != z(q.return_amount.u128()) {
            bad.push(format!("received {} vs simulated {}", gained, q.return_amount));
        }
        if let Some(m) = attrs.first() {
            for (k, v) in [
                ("return_amount", q.return_amount),
                ("spread_amount", q.spread_amount),
                ("commission_amount", q.commission_amount),
            ] {
                if let Some(x) = attr_u128(m, k) {
                    if x != v.u128() {
                        bad.push(format!("{} executed {} vs simulated {}", k, x, v));
                    }
                }
            }
        }
        if !bad.is_empty() {
            cov.violate(
                "C12",
                "a",
                "simulation-ne-execution",
                ev.seq,
                format!("pair {} offer {} {:?}: {}", p.addr, a, offer.asset, bad.join("; ")),
            );
        }
        out("audit")
    }

    fn audit_reverse(&mut self, ev: &Event, pair: usize, ask: &AssetAmt, cov: &mut Cover) -> StepOut {
        let p = match self.model.std_pair(pair) {
            Some(p) => p.clone(),
            None => return out("skip"),
        };
        let (info, k) = match (self.model.asset_info(&ask.asset), self.model.asset_key(&ask.asset)) {
            (Some(i), Some(k)) => (i, k),
            _ => return out("skip"),
        };
        let ai = match p.index_of_key(&k) {
            Some(i) => i,
            None => return out("skip"),
        };
        let y = self.ledger.get(&p.keys[ai], &p.addr);
        let x = self.ledger.get(&p.keys[1 - ai], &p.addr);
        let ask_amt = ask.amount.u128();
        let e18 = N::e18();
        let c = &p.commission;
        let r = self.pair_reverse(&p, &info, ask_amt);
        // domain of the closed form: c < 1 and ask/(1-c) < y
        if *c >= e18 {
            return out("audit");
        }
        let omc = &e18 - c;
        // ask/(1-c) < y  <=>  ask*1e18 < y*(1e18-C)
        if &n(ask_amt) * &e18 >= &n(y) * &omc || x == 0 || y == 0 {
            cov.reach("C12.reverse_outside_domain");
            return out("audit");
        }
        let offer = match r {
            Ok(r) => r.offer_amount.u128(),
            Err(e) => {
                cov.reach("C12.reverse_failed_in_domain");
                // with reserves and ask below 2^56 no intermediate of the closed form leaves 256
                // bits and the result fits 128 bits: there the query has to answer
                if x < (1u128 << 56) && y < (1u128 << 56) && ask_amt < (1u128 << 56) {
                    cov.eval("C12", "b");
                    cov.violate(
                        "C12",
                        "b",
                        "reverse-fails-inside-domain",
                        ev.seq,
                        format!("x={} y={} c={} ask={}: {}", x, y, c, ask_amt, e),
                    );
                }
                return out("audit");
            }
        };
        cov.case(
            "C12",
            format!("reverse|{}|x^{}|y^{}|ask^{}", p.kind(), lg(x) / 8, lg(y) / 8, lg(ask_amt) / 8),
        );
        // F = x*y/(y - ask/(1-c)) - x  with ask/(1-c) = ask*1e18/omc
        //   offer <= F  <=>  (offer + x) * (y*omc - ask*1e18) <= x*y*omc
        let den_u = &(&n(y) * &omc) - &(&n(ask_amt) * &e18); // (y - ask/(1-c)) * omc  > 0
        let xy_omc = &(&n(x) * &n(y)) * &omc;
        cov.eval("C12", "b");
        if &(&n(offer) + &n(x)) * &den_u > xy_omc {
            cov.violate(
                "C12",
                "b",
                "reverse-above-closed-form",
                ev.seq,
                format!("x={} y={} c={} ask={} offer={}", x, y, c, ask_amt, offer),
            );
        }
        // offer >= x*y/(y - ask/(1-c) + ask/1e18 + 1) - x - 1
        //   D = y - ask/(1-c) + ask/1e18 + 1 ; multiply by omc*1e18:
        //   D' = den_u*1e18 + ask*omc + omc*1e18
        //   (offer + x + 1) * D' >= x*y*omc*1e18
        let d2 = &(&(&den_u * &e18) + &(&n(ask_amt) * &omc)) + &(&omc * &e18);
        cov.eval("C12", "c");
        if &(&(&n(offer) + &n(x)) + &N::one()) * &d2 < &xy_omc * &e18 {
            cov.violate(
                "C12",
                "c",
                "reverse-below-rounding-bound",
                ev.seq,
                format!("x={} y={} c={} ask={} offer={}", x, y, c, ask_amt, offer),
            );
        }
        out("audit")
    }

    fn audit_router_quote(&mut self, ev: &Event, hops: &[Hop], amount: u128, reverse: bool, cov: &mut Cover) -> StepOut {
        if hops.is_empty() {
            return out("audit");
        }
        let got = self.router_quote(hops, amount, reverse);
        // the harness' own fold of the pair queries, pair found through the factory lookup
        let mut cur = amount;
        let mut fold: Result<u128, String> = Ok(0);
        let order: Vec<&Hop> = if reverse { hops.iter().rev().collect() } else { hops.iter().collect() };
        for h in order {
            let (oi, ai) = match (self.model.asset_info(&h.offer), self.model.asset_info(&h.ask)) {
                (Some(a), Some(b)) => (a, b),
                _ => return out("skip"),
            };
            let pinfo: Result<PairInfo, String> = self.query(
                &self.model.factory,
                &haloswap::factory::QueryMsg::Pair {
                    asset_infos: [oi.clone(), ai.clone()],
                },
            );
            let addr = match pinfo {
                Ok(pi) => pi.contract_addr,
                Err(e) => {
                    fold = Err(e);
                    break;
                }
            };
            if reverse {
                match self.query::<ReverseSimulationResponse, _>(
                    &addr,
                    &haloswap::pair::QueryMsg::ReverseSimulation {
                        ask_asset: Asset { info: ai, amount: Uint128::new(cur) },
                    },
                ) {
                    Ok(r) => cur = r.offer_amount.u128(),
                    Err(e) => {
                        fold = Err(e);
                        break;
                    }
                }
            } else {
                match self.query::<SimulationResponse, _>(
                    &addr,
                    &haloswap::pair::QueryMsg::Simulation {
                        offer_asset: Asset { info: oi, amount: Uint128::new(cur) },
                    },
                ) {
                    Ok(r) => cur = r.return_amount.u128(),
                    Err(e) => {
                        fold = Err(e);
                        break;
                    }
                }
            }
            fold = Ok(cur);
        }
        let clause = if reverse { "e" } else { "d" };
        cov.case(
            "C12",
            format!(
                "router|{}|hops{}|{}|{}",
                if reverse { "rev" } else { "fwd" },
                hops.len(),
                if got.is_ok() { "ok" } else { "err" },
                if fold.is_ok() { "ok" } else { "err" }
            ),
        );
        match (&got, &fold) {
            (Ok(g), Ok(f)) => {
                cov.eval("C12", clause);
                if g != f {
                    cov.violate(
                        "C12",
                        clause,
                        "router-ne-fold",
                        ev.seq,
                        format!("{} hops, amount {}: router says {}, hop-by-hop fold {}", hops.len(), amount, g, f),
                    );
                }
            }
            (Ok(g), Err(e)) => {
                cov.eval("C12", clause);
                cov.violate(
                    "C12",
                    clause,
                    "router-answers-where-fold-fails",
                    ev.seq,
                    format!("router says {} but the hop-by-hop fold fails: {}", g, e),
                );
            }
            (Err(e), Ok(f)) => {
                // only for a properly chained route, which the execution entry accepts as well
                let chained = hops.iter().all(|h| h.offer != h.ask)
                    && hops.windows(2).all(|w| w[0].ask == w[1].offer);
                if chained {
                    cov.eval("C12", clause);
                    cov.violate(
                        "C12",
                        clause,
                        "router-fails-where-fold-answers",
                        ev.seq,
                        format!("{} hops, amount {}: hop-by-hop fold gives {} but the router fails: {}", hops.len(), amount, f, e),
                    );
                }
            }
            _ => {}
        }
        out("audit")
    }

    fn audit_walk(&mut self, ev: &Event, limit: Option<u32>, flip: bool, cov: &mut Cover) -> StepOut {
        let m = &self.model;
        let total = m.pairs.len();
        let mut seen: Vec<String> = vec![];
        let mut start_after: Option<[AssetInfo; 2]> = None;
        let mut pages = 0usize;
        let mut ended = false;
        while pages <= total + 3 {
            let r: Result<haloswap::factory::PairsResponse, String> = self.query(
                &m.factory,
                &haloswap::factory::QueryMsg::Pairs {
                    start_after: start_after.clone(),
                    limit,
                },
            );
            let page = match r {
                Ok(p) => p.pairs,
                Err(e) => {
                    cov.violate("C19", "c", "walk-query-failed", ev.seq, format!("Pairs query failed: {}", e));
                    return out("audit");
                }
            };
            pages += 1;
            cov.eval("C19", "d");
            if page.len() > 30 {
                cov.violate("C19", "d", "page-too-long", ev.seq, format!("page of {} entries", page.len()));
            }
            if limit.is_none() {
                cov.eval("C19", "e");
                if page.len() > 10 {
                    cov.violate("C19", "e", "default-page-size", ev.seq, format!("default page has {} entries", page.len()));
                }
            }
            if let Some(l) = limit {
                if page.len() > l as usize {
                    cov.violate("C19", "d", "page-exceeds-limit", ev.seq, format!("limit {} page {}", l, page.len()));
                }
            }
            if page.is_empty() {
                ended = true;
                break;
            }
            for pi in &page {
                seen.push(pi.contract_addr.clone());
            }
            let last = page.last().unwrap();
            start_after = Some(if flip {
                [last.asset_infos[1].clone(), last.asset_infos[0].clone()]
            } else {
                last.asset_infos.clone()
            });
            if limit == Some(0) {
                break;
            }
        }
        let shape = if m.denoms.iter().any(|d| m.denoms.iter().any(|e| e != d && e.starts_with(d.as_str()))) {
            "shared-prefix"
        } else {
            "plain"
        };
        cov.case(
            "C19",
            format!("n{}|limit{:?}|{}|flip{}", total, limit, shape, flip),
        );
        if limit == Some(0) {
            return out("audit");
        }
        cov.eval("C19", "c");
        if !ended {
            cov.violate("C19", "c", "walk-does-not-end", ev.seq, format!("walk with limit {:?} over {} pairs did not end", limit, total));
            return out("audit");
        }
        let set: BTreeSet<&String> = seen.iter().collect();
        cov.eval("C19", "b");
        if set.len() != seen.len() {
            cov.violate(
                "C19",
                "b",
                "duplicate-in-walk",
                ev.seq,
                format!("walk with limit {:?} over {} pairs returned {} entries, {} distinct", limit, total, seen.len(), set.len()),
            );
        }
        cov.eval("C19", "a");
        let missing: Vec<&String> = m.pairs.iter().map(|p| &p.addr).filter(|a| !set.contains(a)).collect();
        if !missing.is_empty() {
            cov.violate(
                "C19",
                "a",
                "pair-skipped-by-walk",
                ev.seq,
                format!(
                    "walk with limit {:?} over {} registered pairs missed {} of them, e.g. {}",
                    limit,
                    total,
                    missing.len(),
                    missing[0]
                ),
            );
        }
        if limit.is_none() && missing.is_empty() && set.len() == seen.len() {
            // default page size: every page but the last holds exactly 10
            cov.eval("C19", "e");
            let expect_pages = (total + 9) / 10 + 1;
            if pages != expect_pages {
                cov.violate(
                    "C19",
                    "e",
                    "default-page-size",
                    ev.seq,
                    format!("{} pairs walked in {} pages with the default size; expected {}", total, pages, expect_pages),
                );
            }
        }
        out("audit")
    }

    /// C14: the full caller matrix, every cell a dry-run
    fn audit_matrix(&mut self, ev: &Event, cov: &mut Cover) -> StepOut {
        let m = self.model.clone();
        // ---- roles
        let mut roles: Vec<String> = vec![m.owner.clone()];
        roles.extend(m.former_owners.iter().cloned());
        if let Some(s) = m.actors.iter().find(|a| **a != m.owner && !m.former_owners.contains(a)) {
            roles.push(s.clone());
        }
        roles.push(m.factory.clone());
        roles.push(m.router.clone());
        roles.push(m.rogue.clone());
        if let Some(b) = m.bystanders.first() {
            roles.push(b.clone());
        }
        roles.push("freshcaller".to_string());
        for p in m.pairs.iter().take(2) {
            // accounts named in the pair's own configuration
            roles.extend(p.whitelist.iter().take(2).cloned());
        }
        for p in m.pairs.iter().take(3) {
            roles.push(p.addr.clone());
            roles.push(p.lp.clone());
        }
        for t in &m.tokens {
            roles.push(t.clone());
        }
        // look-alike addresses: extensions and truncations of the privileged addresses
        // (catches prefix / substring comparisons of the caller)
        let mut privileged = vec![m.owner.clone(), m.factory.clone(), m.router.clone()];
        for p in m.pairs.iter().take(2) {
            privileged.push(p.lp.clone());
            for a in p.infos.iter() {
                if let AssetInfo::Token { contract_addr } = a {
                    privileged.push(contract_addr.clone());
                }
            }
        }
        for a in privileged {
            roles.push(format!("{}0", a));
            roles.push(format!("{}x", a));
            if a.len() > 3 {
                roles.push(a[..a.len() - 1].to_string());
            }
        }
        // A transaction sender is always a normalised address on chain; a string the address codec
        // rejects (a malformed whitelist entry such as "Owner", which the stub codec folds onto
        // "owner") can never be a caller.
        {
            use cosmwasm_std::Api;
            let api = cosmwasm_std::testing::MockApi::default();
            roles.retain(|r| api.addr_validate(r).is_ok());
        }
        roles.sort();
        roles.dedup();
        // ---- messages: (target, json, must_succeed_for_authorised)
        let mut msgs: Vec<(String, String, bool)> = vec![];
        let j = |v: serde_json::Value| v.to_string();
        msgs.push((m.factory.clone(), j(serde_json::json!({"update_config": {}})), true));
        if let Some(s) = m.actors.last() {
            msgs.push((m.factory.clone(), j(serde_json::json!({"update_config": {"owner": s}})), true));
        }
        msgs.push((m.factory.clone(), j(serde_json::json!({"update_config": {"pair_code_id": 77, "token_code_id": 78}})), true));
        if let Some((d, dec)) = m.natives.iter().next() {
            msgs.push((
                m.factory.clone(),
                j(serde_json::json!({"add_native_token_decimals": {"denom": d, "decimals": dec}})),
                true,
            ));
        }
        // a creatable set, if any
        {
            let mut assets: Vec<(AssetInfo, bool)> = m
                .natives
                .keys()
                .map(|d| (AssetInfo::NativeToken { denom: d.clone() }, true))
                .collect();
            for t in &m.tokens {
                assets.push((AssetInfo::Token { contract_addr: t.clone() }, true));
            }
            'outer: for i in 0..assets.len() {
                for k in (i + 1)..assets.len() {
                    if m.pair_for(&assets[i].0, &assets[k].0).is_none() {
                        msgs.push((
                            m.factory.clone(),
                            j(serde_json::json!({"create_pair": {
                                "asset_infos": [assets[i].0, assets[k].0],
                                "requirements": {"whitelist": [], "first_asset_minimum": "0", "second_asset_minimum": "0"},
                                "commission_rate": null,
                                "lp_token_info": {"lp_token_name": "halo-lp", "lp_token_symbol": "HLP", "lp_token_decimals": null}
                            }})),
                            false,
                        ));
                        break 'outer;
                    }
                }
            }
        }
        for p in m.pairs.iter().take(3) {
            msgs.push((
                m.factory.clone(),
                j(serde_json::json!({"migrate_pair": {"contract": p.addr, "code_id": CODE_PAIR_V2}})),
                true,
            ));
            let denom = match (&p.infos[0], &p.infos[1]) {
                (AssetInfo::NativeToken { denom }, _) | (_, AssetInfo::NativeToken { denom }) => denom.clone(),
                _ => "nodenom".to_string(),
            };
            msgs.push((
                p.addr.clone(),
                j(serde_json::json!({"update_native_token_decimals": {"denom": denom, "asset_decimals": [3, 4]}})),
                true,
            ));
            let stranger = m.actors.first().cloned().unwrap_or_else(|| "nobody".into());
            // if LP tokens are parked on the pair, claim exactly those (a forged withdraw hook could
            // only get through the final burn when the pair holds that much LP)
            let parked = self.ledger.get(&p.lp_key(), &p.addr);
            let w = Cw20ReceiveMsg {
                sender: stranger.clone(),
                amount: Uint128::new(if parked > 0 { parked } else { 1000 }),
                msg: to_binary(&haloswap::pair::Cw20HookMsg::WithdrawLiquidity {}).unwrap(),
            };
            msgs.push((p.addr.clone(), j(serde_json::json!({ "receive": w })), false));
            for k in 0..2 {
                if let AssetInfo::Token { .. } = &p.infos[k] {
                    let s = Cw20ReceiveMsg {
                        sender: stranger.clone(),
                        amount: Uint128::new(1000),
                        msg: to_binary(&haloswap::pair::Cw20HookMsg::Swap {
                            offer_asset: Asset {
                                info: p.infos[k].clone(),
                                amount: Uint128::new(1000),
                            },
                            belief_price: None,
                            max_spread: None,
                            to: None,
                        })
                        .unwrap(),
                    };
                    msgs.push((p.addr.clone(), j(serde_json::json!({ "receive": s })), false));
                    break;
                }
            }
            msgs.push((
                m.router.clone(),
                j(serde_json::json!({"execute_swap_operation": {
                    "operation": {"halo_swap": {"offer_asset_info": p.infos[0], "ask_asset_info": p.infos[1]}},
                    "to": stranger
                }})),
                false,
            ));
            // internal messages smuggled inside a cw20 Receive wrapper whose `sender` field names
            // a privileged account
            for claimed in [m.router.clone(), m.owner.clone(), m.factory.clone()] {
                let inner_op = serde_json::json!({"execute_swap_operation": {
                    "operation": {"halo_swap": {"offer_asset_info": p.infos[0], "ask_asset_info": p.infos[1]}},
                    "to": stranger
                }});
                let inner_assert = serde_json::json!({"assert_minimum_receive": {
                    "asset_info": p.infos[0], "prev_balance": "0", "minimum_receive": "0", "receiver": stranger
                }});
                for inner in [inner_op, inner_assert] {
                    let w = Cw20ReceiveMsg {
                        sender: claimed.clone(),
                        amount: Uint128::new(1),
                        msg: Binary::from(inner.to_string().as_bytes()),
                    };
                    msgs.push((m.router.clone(), j(serde_json::json!({ "receive": w })), false));
                }
                let inner_dec = serde_json::json!({"update_native_token_decimals": {"denom": denom, "asset_decimals": [1, 2]}});
                let w = Cw20ReceiveMsg {
                    sender: claimed.clone(),
                    amount: Uint128::new(1),
                    msg: Binary::from(inner_dec.to_string().as_bytes()),
                };
                msgs.push((p.addr.clone(), j(serde_json::json!({ "receive": w })), false));
            }
            msgs.push((
                m.router.clone(),
                j(serde_json::json!({"assert_minimum_receive": {
                    "asset_info": p.infos[0], "prev_balance": "0", "minimum_receive": "0", "receiver": stranger
                }})),
                true,
            ));
        }
        let phase = format!("own{}|pairs{}", m.former_owners.len().min(2), m.pairs.len().min(3));
        for (target, msg, must) in &msgs {
            let (need, name) = match classify(&m, target, msg) {
                Some(x) => x,
                None => continue,
            };
            for role in &roles {
                let authorised = satisfies(&m, &need, role);
                let op = Op::Raw {
                    target: AddrRef::Raw(target.clone()),
                    msg: msg.clone(),
                    funds: vec![],
                };
                let fp_before = self.chain.store.fingerprint();
                let (o, delta, _t) = self.dry_run(role, &op, None);
                let fp_after = self.chain.store.fingerprint();
                if fp_before != fp_after {
                    cov.violate("C14", "a", "harness-rollback", ev.seq, "dry-run rollback left a difference".into());
                }
                cov.case("C14", format!("{}|{}|{}|{}", name, role_of(&m, role), o.tag(), phase));
                if !authorised {
                    cov.eval("C14", "a");
                    if o.is_ok() {
                        cov.violate(
                            "C14",
                            "a",
                            "unauthorised-call-accepted",
                            ev.seq,
                            format!("{} from {} ({}) succeeded: {}", name, role, role_of(&m, role), msg),
                        );
                    } else if !delta.is_empty() {
                        cov.violate("C14", "a", "rejected-call-changed-state", ev.seq, format!("{} from {}", name, role));
                    }
                } else if *must {
                    cov.eval("C14", "b");
                    if !m.former_owners.is_empty() && need == crate::orc_factory::Need::Owner {
                        cov.eval("C14", "c");
                    }
                    if o.failed() {
                        cov.violate(
                            "C14",
                            "b",
                            "authorised-call-rejected",
                            ev.seq,
                            format!("{} from the authorised caller {} failed: {}", name, role, o.err_text()),
                        );
                    }
                }
                if authorised && name == "factory.update_config" && o.is_ok() && msg.contains("\"owner\"") {
                    cov.eval("C14", "c");
                }
            }
        }
        out("audit")
    }
}
