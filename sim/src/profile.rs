//! Profiles: what a run of a given check looks like (world shape, actor mix, fault rates).

#[derive(Clone, Debug)]
pub struct Profile {
    pub name: &'static str,
    /// number of scheduler ticks of the main phase
    pub ticks: (u64, u64),
    pub n_denoms: (u64, u64),
    pub n_tokens: (u64, u64),
    pub n_pairs: (u64, u64),
    /// weights of the actor kinds picked at each tick:
    /// [trader, lp_provide, lp_withdraw, donor, whale, adversary, router_user, owner, raw_attacker]
    pub actors: [u32; 9],
    /// weights of probe kinds inserted at quiescent points:
    /// [quote, quote_then_swap, reverse_quote, router_quote, walk, auth_matrix, withdraw_probe,
    ///  provide_probe, audit_registry, crash_enum]
    pub probes: [u32; 10],
    /// probability (per mille) that a tick also runs a probe
    pub probe_rate: u64,
    /// per mille rates of delivery faults
    pub drop_rate: u64,
    pub dup_rate: u64,
    pub delay_rate: u64,
    pub clock_jump_rate: u64,
    /// per mille of ordinary transactions that get an injected message failure
    pub fail_at_rate: u64,
    /// per mille of guarded swaps / provisions among those generated
    pub guard_rate: u64,
    /// adversarial naming of denoms (shared prefixes, concatenation splits, codec prefixes)
    pub adversarial_names: bool,
    /// registry-heavy run: many pairs, decimals re-registrations
    pub registry_heavy: bool,
}

const BASE: Profile = Profile {
    name: "mixed",
    ticks: (20, 60),
    n_denoms: (2, 3),
    n_tokens: (1, 3),
    n_pairs: (1, 4),
    actors: [30, 14, 10, 6, 8, 10, 8, 3, 3],
    probes: [4, 4, 3, 2, 1, 1, 5, 3, 1, 2],
    probe_rate: 250,
    drop_rate: 15,
    dup_rate: 15,
    delay_rate: 150,
    clock_jump_rate: 10,
    fail_at_rate: 30,
    guard_rate: 300,
    adversarial_names: false,
    registry_heavy: false,
};

pub fn profile_for(prop: &str) -> Profile {
    let mut p = BASE.clone();
    match prop {
        "C01" => {
            p.name = "swaps";
            p.actors = [34, 10, 4, 6, 24, 6, 12, 1, 0];
            p.probes = [2, 2, 0, 0, 0, 0, 1, 0, 0, 1];
            p.probe_rate = 80;
            p.guard_rate = 50;
        }
        "C02" => {
            p.name = "settlement";
            p.actors = [22, 10, 3, 4, 4, 50, 3, 1, 1];
            p.probe_rate = 50;
            p.n_tokens = (2, 3);
        }
        "C03" => {
            p.name = "everything";
            p.fail_at_rate = 60;
        }
        "C04" => {
            p.name = "withdrawals";
            p.actors = [14, 22, 34, 16, 4, 2, 2, 1, 0];
            p.probes = [0, 0, 0, 0, 0, 0, 10, 2, 0, 1];
            p.probe_rate = 300;
        }
        "C05" => {
            p.name = "provisions";
            p.actors = [14, 46, 8, 12, 4, 6, 2, 3, 0];
            p.probes = [0, 0, 0, 0, 0, 0, 2, 10, 0, 1];
            p.probe_rate = 300;
            p.clock_jump_rate = 40;
            p.n_pairs = (2, 5);
        }
        "C06" => {
            p.name = "quotes";
            p.actors = [30, 12, 4, 10, 16, 2, 2, 1, 0];
            p.probes = [20, 3, 0, 0, 0, 0, 0, 0, 0, 0];
            p.probe_rate = 900;
        }
        "C07" => {
            p.name = "third-parties";
            p.actors = [22, 14, 10, 8, 4, 14, 14, 4, 6];
            p.probe_rate = 60;
        }
        "C09" => {
            p.name = "funds-tampering";
            p.actors = [10, 16, 2, 4, 2, 60, 2, 1, 0];
            p.probe_rate = 40;
            p.n_denoms = (2, 4);
        }
        "C10" => {
            p.name = "spread-guards";
            p.actors = [60, 8, 2, 6, 10, 2, 2, 4, 0];
            p.guard_rate = 950;
            p.delay_rate = 500;
            p.probe_rate = 30;
        }
        "C11" | "C13" => {
            p.name = "routes";
            p.actors = [14, 10, 2, 6, 4, 2, 56, 2, 2];
            p.n_denoms = (2, 4);
            p.n_tokens = (2, 3);
            p.n_pairs = (3, 6);
            p.probes = [1, 1, 0, 6, 0, 0, 1, 0, 0, 3];
            p.probe_rate = 150;
            p.delay_rate = 400;
            p.fail_at_rate = 80;
        }
        "C12" => {
            p.name = "quote-faithfulness";
            p.actors = [26, 12, 4, 10, 12, 2, 6, 1, 0];
            p.probes = [3, 14, 12, 8, 0, 0, 0, 0, 0, 0];
            p.probe_rate = 900;
            p.n_pairs = (2, 5);
            p.n_tokens = (2, 3);
        }
        "C14" => {
            p.name = "authorisation";
            p.actors = [8, 8, 2, 2, 0, 4, 4, 30, 40];
            p.probes = [0, 0, 0, 0, 0, 20, 0, 0, 2, 0];
            p.probe_rate = 200;
            p.ticks = (15, 40);
        }
        "C15" => {
            p.name = "slippage-guards";
            p.actors = [30, 46, 4, 10, 4, 2, 2, 1, 0];
            p.guard_rate = 950;
            p.delay_rate = 500;
            p.probe_rate = 30;
        }
        "C16" => {
            p.name = "registry";
            p.actors = [4, 4, 0, 0, 0, 2, 2, 80, 6];
            p.probes = [0, 0, 0, 0, 4, 1, 0, 0, 10, 0];
            p.probe_rate = 300;
            p.n_denoms = (3, 5);
            p.n_tokens = (1, 3);
            p.n_pairs = (0, 2);
            p.adversarial_names = true;
            p.registry_heavy = true;
            p.ticks = (15, 45);
        }
        "C17" => {
            p.name = "decimals-propagation";
            p.actors = [2, 2, 0, 0, 0, 0, 2, 90, 2];
            p.probes = [0, 0, 0, 0, 1, 0, 0, 0, 10, 0];
            p.probe_rate = 200;
            p.n_denoms = (3, 5);
            p.n_tokens = (3, 6);
            p.n_pairs = (1, 40);
            p.registry_heavy = true;
            p.ticks = (10, 40);
        }
        "C19" => {
            p.name = "pagination";
            p.actors = [0, 0, 0, 0, 0, 0, 0, 100, 0];
            p.probes = [0, 0, 0, 0, 30, 0, 0, 0, 1, 0];
            p.probe_rate = 700;
            p.n_denoms = (3, 5);
            p.n_tokens = (3, 6);
            p.n_pairs = (0, 40);
            p.adversarial_names = true;
            p.registry_heavy = true;
            p.ticks = (8, 30);
        }
        "C20" => {
            p.name = "withdrawability";
            p.actors = [20, 18, 14, 20, 16, 4, 4, 1, 0];
            p.probes = [0, 0, 0, 0, 0, 0, 30, 0, 0, 1];
            p.probe_rate = 700;
        }
        _ => {}
    }
    p
}
