//! Router oracles: C11 (minimum receive) and C13 (pure pass-through, delivers the quote).

use std::collections::BTreeSet;

use crate::bignat::{z, Z};
use crate::cover::Cover;
use crate::ops::*;
use crate::step::*;

struct Route<'a> {
    hops: &'a [Hop],
    input_key: Option<String>,
    input: u128,
    min_receive: Option<u128>,
    to: &'a Option<AddrRef>,
    entry: &'static str,
    /// coins attached besides the first hop's offer denom: (asset key, amount)
    extra: Vec<(String, u128)>,
}

fn input_key_ref(hops: &[Hop]) -> Option<String> {
    match hops.first().map(|h| &h.offer) {
        Some(AssetRef::Native(d)) => Some(crate::ledger::native_key(d)),
        _ => None,
    }
}

fn route_of<'a>(ctx: &'a Ctx) -> Option<Route<'a>> {
    match &ctx.ev.op {
        Op::RouteExec {
            hops,
            funds,
            min_receive,
            to,
        } => {
            let (input_key, input) = match hops.first().map(|h| &h.offer) {
                Some(AssetRef::Native(d)) => (
                    Some(crate::ledger::native_key(d)),
                    funds
                        .iter()
                        .filter(|f| &f.denom == d)
                        .map(|f| f.amount.u128())
                        .sum(),
                ),
                Some(other) => (ctx.model.asset_key(other), 0),
                None => (None, 0),
            };
            Some(Route {
                hops,
                input_key,
                input,
                min_receive: min_receive.map(|m| m.u128()),
                to,
                entry: "exec",
                extra: funds
                    .iter()
                    .map(|f| (crate::ledger::native_key(&f.denom), f.amount.u128()))
                    .filter(|(k, _)| Some(k) != input_key_ref(hops).as_ref())
                    .collect(),
            })
        }
        Op::RouteHook {
            via,
            sent,
            hops,
            min_receive,
            to,
        } => Some(Route {
            hops,
            input_key: ctx.model.asset_key(via),
            input: sent.u128(),
            min_receive: min_receive.map(|m| m.u128()),
            to,
            entry: "hook",
            extra: vec![],
        }),
        _ => None,
    }
}

/// the router's own acceptance rule for route shapes, re-implemented: process hops in order,
/// remove the offered asset from the set of dangling outputs, add the asked one
fn dangling_outputs(ctx: &Ctx, hops: &[Hop]) -> Option<usize> {
    let mut set: BTreeSet<String> = BTreeSet::new();
    for h in hops {
        let o = ctx.model.asset_key(&h.offer)?;
        let a = ctx.model.asset_key(&h.ask)?;
        set.remove(&o);
        set.insert(a);
    }
    Some(set.len())
}

fn kinds(hops: &[Hop]) -> String {
    let k = |a: &AssetRef| match a {
        AssetRef::Native(_) => 'n',
        AssetRef::Token(_) => 'c',
        AssetRef::Lp(_) => 'l',
        AssetRef::Raw(_) => 'r',
    };
    let mut s = String::new();
    if let Some(h) = hops.first() {
        s.push(k(&h.offer));
    }
    for h in hops {
        s.push(k(&h.ask));
    }
    s
}

pub fn run(ctx: &Ctx, cov: &mut Cover) {
    let r = match route_of(ctx) {
        Some(r) => r,
        None => return,
    };
    let m = ctx.model;
    let recipient = match r.to {
        Some(t) => m.addr(t).unwrap_or_else(|| ctx.sender.to_string()),
        None => ctx.sender.to_string(),
    };
    let recipient_class = if recipient == ctx.sender {
        "self"
    } else if m.actors.iter().any(|a| *a == recipient) {
        "other-actor"
    } else if m.is_contract(&recipient) {
        "contract"
    } else {
        "fresh"
    };
    // ---- shape rule (C13.e)
    let dangling = dangling_outputs(ctx, r.hops);
    let shape = if r.hops.is_empty() {
        "empty"
    } else {
        match dangling {
            Some(1) => "single-output",
            Some(_) => "multi-output",
            None => "dangling-ref",
        }
    };
    if r.hops.is_empty() || matches!(dangling, Some(n) if n != 1) {
        cov.eval("C13", "e");
        cov.case(
            "C13",
            format!("{}|{}|{}|{}|{}", r.hops.len(), r.entry, kinds(r.hops), shape, ctx.outcome.tag()),
        );
        if ctx.outcome.is_ok() {
            cov.violate(
                "C13",
                "e",
                "malformed-route-accepted",
                ctx.ev.seq,
                format!("route with shape {} ({} hops) was accepted", shape, r.hops.len()),
            );
        }
        return;
    }
    let final_key = match r.hops.last().and_then(|h| m.asset_key(&h.ask)) {
        Some(k) => k,
        None => return,
    };
    // pairs on the route according to the model; distinctness
    let mut pair_ids = vec![];
    let mut all_known = true;
    for h in r.hops {
        match (m.asset_info(&h.offer), m.asset_info(&h.ask)) {
            (Some(a), Some(b)) => match m.pair_for(&a, &b) {
                Some(i) => pair_ids.push(i),
                None => all_known = false,
            },
            _ => all_known = false,
        }
    }
    let distinct = {
        let s: BTreeSet<_> = pair_ids.iter().collect();
        s.len() == pair_ids.len()
    };
    // ---- C11
    if let Some(mr) = r.min_receive {
        let gain = Z::diff(ctx.view.post(&final_key, &recipient), ctx.view.pre(&final_key, &recipient));
        let mut paid_by_recipient = if recipient == ctx.sender && r.input_key.as_deref() == Some(&final_key) {
            z(r.input)
        } else {
            Z::zero()
        };
        if recipient == ctx.sender {
            for (k, v) in r.extra.iter() {
                if *k == final_key {
                    paid_by_recipient += z(*v);
                }
            }
        }
        let quote = match &ctx.pre.route_quote {
            Some(Ok(q)) => Some(*q),
            _ => None,
        };
        let off = match quote {
            None => "noquote".to_string(),
            Some(q) => {
                let d = Z::diff(mr, q);
                if d < -z(1) { "<-1".into() } else if d > z(1) { ">+1".into() } else { format!("{:+}", d) }
            }
        };
        cov.case(
            "C11",
            format!(
                "{}|{}|{}|m-quote{}|{}|{}|{}",
                r.hops.len(),
                r.entry,
                kinds(r.hops),
                off,
                recipient_class,
                if ctx.ev.fail_at.is_some() { "F4" } else { "-" },
                ctx.outcome.tag()
            ),
        );
        if ctx.outcome.is_ok() {
            cov.eval("C11", "a");
            if gain.clone() + paid_by_recipient.clone() < z(mr) {
                cov.violate(
                    "C11",
                    "a",
                    "delivered-less-than-minimum",
                    ctx.ev.seq,
                    format!(
                        "route succeeded: recipient {} gained {} of {} (+{} paid) < minimum_receive {}",
                        recipient, gain, final_key, paid_by_recipient, mr
                    ),
                );
            }
        } else if ctx.outcome.failed() {
            cov.eval("C11", "c");
        }
    }
    // ---- C13 (accepted simple routes, router holding none of the route's assets)
    if !ctx.outcome.is_ok() || !all_known || !distinct {
        return;
    }
    let mut route_keys: Vec<String> = vec![];
    for h in r.hops {
        for a in [&h.offer, &h.ask] {
            if let Some(k) = m.asset_key(a) {
                if !route_keys.contains(&k) {
                    route_keys.push(k);
                }
            }
        }
    }
    if r.extra.iter().any(|(k, _)| route_keys.contains(k)) {
        // a second route asset attached to the call is outside the statement's single input
        cov.reach("C13.extra_route_asset_attached_skipped");
        return;
    }
    if route_keys.iter().any(|k| ctx.view.pre(k, &m.router) != 0) {
        cov.reach("C13.router_held_route_asset_skipped");
        return;
    }
    // a route that revisits an asset (cycle) makes "input consumed / only final" ambiguous
    let simple_assets = route_keys.len() == r.hops.len() + 1;
    cov.case(
        "C13",
        format!(
            "{}|{}|{}|{}|{}|ok",
            r.hops.len(),
            r.entry,
            kinds(r.hops),
            shape,
            recipient_class
        ),
    );
    let gain = Z::diff(ctx.view.post(&final_key, &recipient), ctx.view.pre(&final_key, &recipient));
    if let Some(Ok(q)) = &ctx.pre.route_quote {
        if simple_assets && recipient != m.router && !pair_ids.iter().any(|i| m.pairs[*i].addr == recipient) {
            cov.eval("C13", "a");
            let own = if recipient == ctx.sender && r.input_key.as_deref() == Some(&final_key) { z(r.input) } else { Z::zero() };
            if gain.clone() + own != z(*q) {
                cov.violate(
                    "C13",
                    "a",
                    "delivered-ne-quote",
                    ctx.ev.seq,
                    format!(
                        "route of {} hops: recipient {} gained {} of {}, router quoted {} for input {}",
                        r.hops.len(), recipient, gain, final_key, q, r.input
                    ),
                );
            }
        }
    }
    if let Some(ik) = &r.input_key {
        if simple_assets && (recipient != ctx.sender || *ik != final_key) {
            cov.eval("C13", "b");
            let fall = Z::diff(ctx.view.pre(ik, ctx.sender), ctx.view.post(ik, ctx.sender));
            if fall != z(r.input) {
                cov.violate(
                    "C13",
                    "b",
                    "input-not-consumed-exactly",
                    ctx.ev.seq,
                    format!("sender's {} fell by {} for an input of {}", ik, fall, r.input),
                );
            }
        }
    }
    cov.eval("C13", "c");
    for k in &route_keys {
        let left = ctx.view.post(k, &m.router);
        if left != 0 && recipient != m.router {
            cov.violate(
                "C13",
                "c",
                "router-kept-funds",
                ctx.ev.seq,
                format!("router holds {} of {} after the route", left, k),
            );
        }
    }
    if recipient != ctx.sender && !m.is_contract(&recipient) {
        cov.eval("C13", "d");
        for c in &ctx.view.delta.bal {
            if c.account == recipient && c.asset != final_key {
                cov.violate(
                    "C13",
                    "d",
                    "non-final-asset-reached-recipient",
                    ctx.ev.seq,
                    format!("recipient {} balance of {} changed {} -> {}", recipient, c.asset, c.old, c.new),
                );
            }
        }
    }
}
