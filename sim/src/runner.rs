//! One simulated run: world generation, the discrete-event scheduler with its mempool and
//! delivery faults, and the recorded history.

use cosmwasm_std::Uint128;

use crate::cover::{fnv, Cover};
use crate::ops::*;
use crate::prng::Rng;
use crate::profile::Profile;
use crate::sim::Sim;

pub struct Pending {
    pub deliver_at: u64,
    pub order: u64,
    pub born_delivered: u64,
    pub sender: AddrRef,
    pub op: Op,
    pub dry_run: bool,
    pub fail_at: Option<u32>,
    pub note: String,
}

pub struct Runner {
    pub sim: Sim,
    pub rng: Rng,
    pub profile: Profile,
    pub cov: Cover,
    pub events: Vec<Event>,
    pub mempool: Vec<Pending>,
    pub tick: u64,
    pub delivered: u64,
    pub t: u64,
    pub height: u64,
    pub order_ctr: u64,
    /// hash chain over (seq, kind, outcome, writes): the interleaving/log digest of the run
    pub log_digest: u64,
    pub shape_digest: u64,
    pub ordering: u8,
    pub magnitude: u8,
    pub fresh_ctr: u64,
    pub keep_log: bool,
    pub log: Vec<String>,
    /// (r0, r1, S) of every pair after the last delivered event: the recorded history that the
    /// monotonicity of C03 is re-checked over, independently of the per-step delta logic
    pub share_history: Vec<(u128, u128, u128)>,
}

pub const ACTOR_NAMES: [&str; 7] = ["owner", "lpone", "lptwo", "trader", "tradez", "whale", "donor"];
pub const BYSTANDERS: [&str; 2] = ["bystander", "bystandez"];

const PLAIN_DENOMS: [&str; 7] = [
    "uaura",
    "uusd",
    "ibc/27394fb092d2ec",
    "uatom",
    "x",
    "ibc/27394FB092D2ECCD56123C74F36E4C1F926001CEADA9CA97EA622B25F41E5EB2",
    "factory/aura1qyqszqgpqyqszqgpqyqszqgpqyqszqgpq5g7vx/ulp.token-1",
];

pub fn gen_world(rng: &mut Rng, p: &Profile) -> (WorldCfg, u8) {
    let nd = rng.range(p.n_denoms.0, p.n_denoms.1) as usize;
    let nt = rng.range(p.n_tokens.0, p.n_tokens.1) as usize;
    let mut denoms: Vec<String> = vec![];
    if p.adversarial_names {
        // shared prefixes, concatenation splits (ab|c vs a|bc) and printable prefixes of
        // the canonical form of contract addresses
        let pool = [
            "a", "ab", "abc", "b", "bc", "c", "aa", "aab", "ba", "u", "ua", "uau", "uaura", "uaur",
            "cr", "co", "con", "cont", "contr", "contract", "contract1", "contract10", "cr5", "cr1", "t1",
            "ct1", "tc1", "c1", "o1", "n1", "1", "10", "c10",
        ];
        // half of the adversarial worlds contain a whole family whose pair keys collide when
        // ids are concatenated without a delimiter: {ab,c} vs {a,bc}; {a,ab} vs {aa,b}
        if nd >= 4 && rng.chance(50, 100) {
            let fam: [&str; 4] = *rng.pick(&[
                ["ab", "c", "a", "bc"],
                ["a", "ab", "aa", "b"],
                ["u", "ua", "uu", "a"],
                // overlapping collisions: {ab, aba} and {aba, ba} share a member and a key
                ["ab", "aba", "ba", "b"],
                ["ausd", "ausda", "usda", "u"],
            ]);
            denoms = fam.iter().map(|s| s.to_string()).collect();
        }
        while denoms.len() < nd {
            let d = rng.pick(&pool).to_string();
            if !denoms.contains(&d) {
                denoms.push(d);
            }
        }
    } else {
        let mut pool: Vec<&str> = PLAIN_DENOMS.to_vec();
        rng.shuffle(&mut pool);
        denoms = pool[..nd].iter().map(|s| s.to_string()).collect();
    }
    // look-alike denoms: a second denom that differs from an existing one only by letter case,
    // or extends / truncates it (the bank treats them as unrelated coins)
    if rng.chance(15, 100) {
        let base = rng.pick(&denoms).clone();
        let alike = match rng.weighted(&[50, 20, 15, 15]) {
            0 => {
                if base.chars().any(|c| c.is_ascii_lowercase()) {
                    base.to_uppercase()
                } else {
                    base.to_lowercase()
                }
            }
            1 => format!("{}x", base),
            2 => format!("{} ", base),
            _ => {
                let mut c: Vec<char> = base.chars().collect();
                if let Some(f) = c.first_mut() {
                    *f = if f.is_ascii_lowercase() { f.to_ascii_uppercase() } else { f.to_ascii_lowercase() };
                }
                c.into_iter().collect()
            }
        };
        if alike != base && !denoms.contains(&alike) {
            denoms.push(alike);
        }
    }
    // now and then a native denom is spelled exactly like the address of one of the tokens
    // (token i is instantiated as "contract<i>"): textual asset ids then collide across kinds
    if nt > 0 && !denoms.is_empty() && rng.chance(12, 100) {
        let t = rng.below(nt as u64);
        let alias = if rng.chance(70, 100) {
            format!("contract{}", t)
        } else {
            // the stub's canonical (storage) form of that address, as a string
            use cosmwasm_std::Api;
            let c = cosmwasm_std::testing::MockApi::default()
                .addr_canonicalize(&format!("contract{}", t))
                .map(|c| String::from_utf8_lossy(c.as_slice()).to_string())
                .unwrap_or_else(|_| format!("contract{}", t));
            c
        };
        if !denoms.contains(&alias) {
            let k = rng.pick_idx(denoms.len());
            denoms[k] = alias;
        }
    }
    let tokens: Vec<TokenCfg> = (0..nt)
        .map(|_| TokenCfg {
            decimals: *rng.pick(&[0u8, 6, 6, 6, 8, 12, 18, 18, 3, 9]),
        })
        .collect();
    // magnitude regime of the run
    let magnitude = rng.weighted(&[20, 45, 20, 15]) as u8; // dust, normal, huge, mixed
    let mut actors = vec![];
    for name in ACTOR_NAMES.iter().chain(BYSTANDERS.iter()) {
        let mut bits = |rng: &mut Rng| -> u32 {
            match magnitude {
                0 => rng.range(4, 24) as u32,
                1 => rng.range(20, 70) as u32,
                2 => rng.range(60, 120) as u32,
                _ => rng.range(4, 120) as u32,
            }
        };
        let natives = denoms
            .iter()
            .map(|d| {
                let b = bits(rng);
                Fund {
                    denom: d.clone(),
                    amount: Uint128::new(rng.with_bits(b)),
                }
            })
            .collect();
        let tokens = (0..nt)
            .map(|_| {
                let b = bits(rng);
                Uint128::new(rng.with_bits(b))
            })
            .collect();
        actors.push(ActorCfg {
            name: name.to_string(),
            natives,
            tokens,
        });
    }
    (
        WorldCfg {
            denoms,
            tokens,
            actors,
            bystanders: BYSTANDERS.iter().map(|s| s.to_string()).collect(),
            owner: "owner".to_string(),
        },
        magnitude,
    )
}

impl Runner {
    pub fn new(seed: u64, mut profile: Profile) -> Runner {
        let mut rng = Rng::new(seed);
        // swarm: every run perturbs the actor mix and the fault rates of its profile, so that
        // some runs lack some actor kinds entirely and others are dominated by them
        for w in profile.actors.iter_mut() {
            *w = *w * *rng.pick(&[0u32, 1, 1, 1, 2, 3]);
        }
        if profile.actors.iter().all(|w| *w == 0) {
            profile.actors[0] = 1;
        }
        for r in [
            &mut profile.drop_rate,
            &mut profile.dup_rate,
            &mut profile.delay_rate,
            &mut profile.clock_jump_rate,
            &mut profile.fail_at_rate,
        ] {
            *r = (*r * *rng.pick(&[0u64, 1, 1, 2, 4])).min(900);
        }
        let (cfg, magnitude) = gen_world(&mut rng, &profile);
        let sim = Sim::new(&cfg);
        let ordering = rng.weighted(&[50, 30, 10, 10]) as u8; // fifo, random, lifo, adversarial
        Runner {
            sim,
            rng,
            profile,
            cov: Cover::default(),
            events: vec![],
            mempool: vec![],
            tick: 0,
            delivered: 0,
            t: 0,
            height: 0,
            order_ctr: 0,
            log_digest: 0xcbf29ce484222325,
            shape_digest: 0xcbf29ce484222325,
            ordering,
            magnitude,
            fresh_ctr: 0,
            keep_log: false,
            log: vec![],
            share_history: vec![],
        }
    }

    pub fn submit(&mut self, sender: AddrRef, op: Op, delay: u64, note: &str) {
        self.submit_full(sender, op, delay, false, None, note);
    }

    pub fn submit_full(&mut self, sender: AddrRef, op: Op, delay: u64, dry_run: bool, fail_at: Option<u32>, note: &str) {
        self.order_ctr += 1;
        let order = match self.ordering {
            0 => self.order_ctr,
            1 => self.rng.next_u64() >> 1,
            2 => u64::MAX / 2 - self.order_ctr,
            _ => self.order_ctr,
        };
        self.mempool.push(Pending {
            deliver_at: self.tick + delay,
            order,
            born_delivered: self.delivered,
            sender,
            op,
            dry_run,
            fail_at,
            note: note.to_string(),
        });
    }

    /// deliver one event right now (probes and the setup prelude use this directly)
    pub fn deliver(&mut self, sender: AddrRef, op: Op, dry_run: bool, fail_at: Option<u32>, note: String) -> &'static str {
        self.height += 1;
        self.t += 5;
        let ev = Event {
            seq: self.events.len() as u64,
            t: self.t,
            height: self.height,
            sender,
            op,
            dry_run,
            fail_at,
            note,
        };
        let out = self.sim.step(&ev, &mut self.cov);
        let line = format!(
            "{}|{}|{}|{}|{}|{}",
            ev.seq,
            ev.op.kind(),
            out.outcome_tag,
            out.dispatches,
            out.writes,
            fnv(&out.err)
        );
        self.log_digest = fnv(&format!("{:x}|{}", self.log_digest, line));
        let actor_kind = ev.note.split(' ').next().unwrap_or("");
        self.shape_digest = fnv(&format!(
            "{:x}|{}|{}|{}",
            self.shape_digest,
            actor_kind,
            ev.op.kind(),
            out.outcome_tag
        ));
        if self.keep_log {
            self.log.push(format!("{} {}", line, out.err));
        }
        if !dry_run && !ev.op.is_audit() {
            self.delivered += 1;
        }
        self.check_share_history(&ev, out.outcome_tag);
        self.events.push(ev);
        out.outcome_tag
    }

    /// C03.b: over the recorded history, r0*r1/S^2 of every pair is a monotone sequence; a
    /// dry-run or audit must leave every pair exactly as it was (else the harness is broken).
    fn check_share_history(&mut self, ev: &Event, outcome: &str) {
        use crate::bignat::n;
        let np = self.sim.model.pairs.len();
        for i in 0..np {
            let p = &self.sim.model.pairs[i];
            if !p.standard {
                if self.share_history.len() <= i {
                    self.share_history.push((0, 0, 0));
                }
                continue;
            }
            let cur = self.sim.reserves_pre(p);
            if self.share_history.len() <= i {
                self.share_history.push(cur);
                continue;
            }
            let prev = self.share_history[i];
            if prev == cur {
                continue;
            }
            if ev.dry_run || ev.op.is_audit() {
                panic!("harness: dry-run/audit step {} changed pair {} from {:?} to {:?}", ev.seq, i, prev, cur);
            }
            self.share_history[i] = cur;
            if prev.2 == 0 || cur.2 == 0 {
                continue;
            }
            self.cov.eval("C03", "b");
            let lhs = &(&n(cur.0) * &n(cur.1)) * &(&n(prev.2) * &n(prev.2));
            let rhs = &(&n(prev.0) * &n(prev.1)) * &(&n(cur.2) * &n(cur.2));
            if lhs < rhs {
                // the step oracle must have seen the same thing; report only what it missed
                let seen = self
                    .cov
                    .violations
                    .iter()
                    .any(|v| v.prop == "C03" && v.clause == "a" && v.seq == ev.seq);
                if !seen {
                    self.cov.violate(
                        "C03",
                        "b",
                        "history-not-monotone",
                        ev.seq,
                        format!(
                            "pair #{} (r0,r1,S) {:?} -> {:?} across {} ({}) without a step-level alarm",
                            i, prev, cur, ev.op.kind(), outcome
                        ),
                    );
                }
            }
        }
    }

    fn deliver_due(&mut self) {
        let now = self.tick;
        let mut due: Vec<Pending> = vec![];
        let mut i = 0;
        while i < self.mempool.len() {
            if self.mempool[i].deliver_at <= now {
                due.push(self.mempool.remove(i));
            } else {
                i += 1;
            }
        }
        due.sort_by_key(|p| (p.order, p.born_delivered));
        for p in due {
            // delivery faults
            if !p.dry_run && self.rng.chance(self.profile.drop_rate, 1000) {
                self.cov.fault("F1_tx_dropped");
                continue;
            }
            if self.rng.chance(self.profile.clock_jump_rate, 1000) {
                let jump = *self.rng.pick(&[3_600u64, 86_400, 31_536_000, 10 * 31_536_000]);
                self.t += jump;
                self.height += jump / 5;
                self.cov.fault("F9_clock_jump");
            }
            let stale = self.delivered - p.born_delivered;
            if stale > 0 {
                self.cov.fault("F3_delivered_after_other_txs");
            }
            let note = format!("{} stale={}", p.note, stale);
            let dup = !p.dry_run && self.rng.chance(self.profile.dup_rate, 1000);
            self.deliver(p.sender.clone(), p.op.clone(), p.dry_run, p.fail_at, note.clone());
            if dup {
                self.cov.fault("F2_tx_duplicated");
                self.deliver(p.sender, p.op, p.dry_run, p.fail_at, format!("{} dup", note));
            }
        }
    }

    pub fn fresh_addr(&mut self) -> String {
        self.fresh_ctr += 1;
        format!("fresh{}", self.fresh_ctr)
    }

    /// run the whole scenario
    pub fn run(&mut self) {
        self.setup_prelude();
        let ticks = self.rng.range(self.profile.ticks.0, self.profile.ticks.1);
        for _ in 0..ticks {
            self.tick += 1;
            self.actor_tick();
            self.deliver_due();
            if self.rng.chance(self.profile.probe_rate, 1000) {
                self.probe_tick();
            }
            if self.events.len() > 400 {
                break;
            }
        }
        // drain the mempool, then final audits
        self.tick += 1000;
        self.deliver_due();
        self.final_audits();
    }
}
