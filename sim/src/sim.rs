//! The simulator core: world construction, reference model of the deployment, execution of
//! one concrete event with panic containment, journal -> ledger delta, dry-run rollback.

use std::cell::RefCell;
use std::collections::BTreeMap;
use std::panic::{catch_unwind, AssertUnwindSafe};
use std::str::FromStr;

use bignumber::Decimal256;
use cosmwasm_std::{
    to_binary, Addr, BankMsg, Binary, BlockInfo, Coin, CosmosMsg, Timestamp, Uint128,
    WasmMsg,
};
use cw20::{Cw20Coin, Cw20ExecuteMsg, Cw20ReceiveMsg, Expiration, MinterResponse};
use cw_multi_test::{AppResponse, Executor};
use haloswap::asset::{Asset, AssetInfo, CreatePairRequirements, LPTokenInfo};
use serde::de::DeserializeOwned;
use serde::Serialize;

use crate::bignat::N;
use crate::ledger::{cw20_key, native_key, Delta, Ledger};
use crate::ops::*;
use crate::world::*;

static LAST_PANIC_GLOBAL: std::sync::Mutex<String> = std::sync::Mutex::new(String::new());

thread_local! {
    static LAST_PANIC: RefCell<String> = RefCell::new(String::new());
}

pub fn install_panic_hook() {
    std::panic::set_hook(Box::new(|info| {
        let msg = if let Some(s) = info.payload().downcast_ref::<&str>() {
            s.to_string()
        } else if let Some(s) = info.payload().downcast_ref::<String>() {
            s.clone()
        } else {
            "panic".to_string()
        };
        let loc = info
            .location()
            .map(|l| format!("{}:{}", l.file(), l.line()))
            .unwrap_or_default();
        LAST_PANIC.with(|p| *p.borrow_mut() = format!("{} @ {}", msg, loc));
        if loc.contains("/verif/") || loc.starts_with("src/") {
            if let Ok(mut g) = LAST_PANIC_GLOBAL.lock() {
                *g = format!("{} @ {}", msg, loc);
            }
        }
    }));
}

pub fn last_panic() -> String {
    LAST_PANIC_GLOBAL.lock().map(|g| g.clone()).unwrap_or_default()
}

fn take_panic() -> String {
    LAST_PANIC.with(|p| std::mem::take(&mut *p.borrow_mut()))
}

#[derive(Clone, Debug)]
pub enum Outcome {
    Ok(Vec<AppResponse>),
    Err(String),
    Abort(String),
    /// the event could not be turned into messages (dangling reference after minimisation)
    Skipped(String),
}

impl Outcome {
    pub fn is_ok(&self) -> bool {
        matches!(self, Outcome::Ok(_))
    }
    pub fn failed(&self) -> bool {
        matches!(self, Outcome::Err(_) | Outcome::Abort(_))
    }
    pub fn tag(&self) -> &'static str {
        match self {
            Outcome::Ok(_) => "ok",
            Outcome::Err(_) => "err",
            Outcome::Abort(_) => "abort",
            Outcome::Skipped(_) => "skip",
        }
    }
    pub fn err_text(&self) -> String {
        match self {
            Outcome::Ok(_) => String::new(),
            Outcome::Err(e) | Outcome::Abort(e) | Outcome::Skipped(e) => e.clone(),
        }
    }
    pub fn responses(&self) -> &[AppResponse] {
        match self {
            Outcome::Ok(r) => r,
            _ => &[],
        }
    }
}

#[derive(Clone, Debug)]
pub struct PairModel {
    pub addr: String,
    pub lp: String,
    pub infos: [AssetInfo; 2],
    pub refs: [AssetRef; 2],
    pub keys: [String; 2],
    pub decimals: [u8; 2],
    /// commission rate in 10^-18 atoms
    pub commission: N,
    pub whitelist: Vec<String>,
    pub mins: [u128; 2],
    pub lp_decimals: u8,
    /// both assets are bank denoms or cw20-base instances (the properties are stated for these)
    pub standard: bool,
}

impl PairModel {
    pub fn lp_key(&self) -> String {
        cw20_key(&self.lp)
    }
    pub fn kind(&self) -> &'static str {
        match (&self.infos[0], &self.infos[1]) {
            (AssetInfo::NativeToken { .. }, AssetInfo::NativeToken { .. }) => "nn",
            (AssetInfo::NativeToken { .. }, AssetInfo::Token { .. }) => "nc",
            (AssetInfo::Token { .. }, AssetInfo::NativeToken { .. }) => "cn",
            (AssetInfo::Token { .. }, AssetInfo::Token { .. }) => "cc",
        }
    }
    pub fn index_of_key(&self, key: &str) -> Option<usize> {
        self.keys.iter().position(|k| k == key)
    }
}

#[derive(Clone, Debug)]
pub struct Model {
    pub tokens: Vec<String>,
    pub token_decimals: Vec<u8>,
    pub factory: String,
    pub router: String,
    pub rogue: String,
    pub pairs: Vec<PairModel>,
    pub natives: BTreeMap<String, u8>,
    pub owner: String,
    pub former_owners: Vec<String>,
    pub pair_code_id: u64,
    pub token_code_id: u64,
    pub actors: Vec<String>,
    pub bystanders: Vec<String>,
    pub denoms: Vec<String>,
}

impl Model {
    pub fn addr(&self, r: &AddrRef) -> Option<String> {
        Some(match r {
            AddrRef::Actor(n) => n.clone(),
            AddrRef::Factory => self.factory.clone(),
            AddrRef::Router => self.router.clone(),
            AddrRef::Pair(i) => self.pairs.get(*i)?.addr.clone(),
            AddrRef::Lp(i) => self.pairs.get(*i)?.lp.clone(),
            AddrRef::Token(i) => self.tokens.get(*i)?.clone(),
            AddrRef::Rogue => self.rogue.clone(),
            AddrRef::Raw(s) => s.clone(),
        })
    }
    pub fn asset_info(&self, a: &AssetRef) -> Option<AssetInfo> {
        Some(match a {
            AssetRef::Native(d) => AssetInfo::NativeToken { denom: d.clone() },
            AssetRef::Token(i) => AssetInfo::Token {
                contract_addr: self.tokens.get(*i)?.clone(),
            },
            AssetRef::Lp(i) => AssetInfo::Token {
                contract_addr: self.pairs.get(*i)?.lp.clone(),
            },
            AssetRef::Raw(s) => AssetInfo::Token {
                contract_addr: s.clone(),
            },
        })
    }
    pub fn asset_key(&self, a: &AssetRef) -> Option<String> {
        Some(match self.asset_info(a)? {
            AssetInfo::NativeToken { denom } => native_key(&denom),
            AssetInfo::Token { contract_addr } => cw20_key(&contract_addr),
        })
    }
    pub fn cw20_addr(&self, a: &AssetRef) -> Option<String> {
        match self.asset_info(a)? {
            AssetInfo::Token { contract_addr } => Some(contract_addr),
            _ => None,
        }
    }
    /// pair i, only if both of its assets are standard tokens
    pub fn std_pair(&self, i: usize) -> Option<&PairModel> {
        self.pairs.get(i).filter(|p| p.standard)
    }
    pub fn pair_by_addr(&self, addr: &str) -> Option<usize> {
        self.pairs.iter().position(|p| p.addr == addr)
    }
    /// expected decimals of an asset according to the model (None: not a valid pair asset)
    pub fn expected_decimals(&self, a: &AssetRef) -> Option<u8> {
        match a {
            AssetRef::Native(d) => self.natives.get(d).copied(),
            AssetRef::Token(i) => self.token_decimals.get(*i).copied(),
            AssetRef::Lp(i) => self.pairs.get(*i).map(|p| p.lp_decimals),
            AssetRef::Raw(_) => None,
        }
    }
    /// find the pair (index) whose unordered asset set equals {a, b}
    pub fn pair_for(&self, a: &AssetInfo, b: &AssetInfo) -> Option<usize> {
        self.pairs.iter().position(|p| {
            (p.infos[0] == *a && p.infos[1] == *b) || (p.infos[0] == *b && p.infos[1] == *a)
        })
    }
    pub fn is_contract(&self, addr: &str) -> bool {
        addr == self.factory
            || addr == self.router
            || addr == self.rogue
            || self.tokens.iter().any(|t| t == addr)
            || self.pairs.iter().any(|p| p.addr == addr || p.lp == addr)
    }
}

pub fn info_key(i: &AssetInfo) -> String {
    match i {
        AssetInfo::NativeToken { denom } => native_key(denom),
        AssetInfo::Token { contract_addr } => cw20_key(contract_addr),
    }
}

pub fn dec256_atoms(d: &Decimal256) -> N {
    // Decimal256 renders canonically; take the atoms through the string to stay independent
    // of the U256 limbs
    let s = d.to_string();
    dec_str_atoms(&s).expect("Decimal256 string")
}

/// parse "123.456" into 10^-18 atoms (at most 18 fractional digits)
pub fn dec_str_atoms(s: &str) -> Option<N> {
    let mut parts = s.split('.');
    let whole = parts.next()?;
    let frac = parts.next().unwrap_or("");
    if parts.next().is_some() || frac.len() > 18 {
        return None;
    }
    let w = N::from_dec_str(whole)?;
    let mut f = if frac.is_empty() {
        N::zero()
    } else {
        N::from_dec_str(frac)?
    };
    f = &f * &N::pow10(18 - frac.len() as u32);
    Some(&(&w * &N::e18()) + &f)
}

pub struct ExecResult {
    pub outcome: Outcome,
    pub trace: Vec<Dispatch>,
    pub injected: bool,
    pub journal: Vec<JournalEntry>,
}

pub struct Sim {
    pub chain: Chain,
    pub ledger: Ledger,
    pub model: Model,
    pub cfg: WorldCfg,
}

fn funds_to_coins(funds: &[Fund]) -> Vec<Coin> {
    funds
        .iter()
        .map(|f| Coin {
            denom: f.denom.clone(),
            amount: f.amount,
        })
        .collect()
}

impl Sim {
    /// Build the world: chain, tokens, factory, router, rogue. Pairs are created by events.
    pub fn new(cfg: &WorldCfg) -> Sim {
        let balances: Vec<(String, Vec<Coin>)> = cfg
            .actors
            .iter()
            .map(|a| {
                let mut coins = funds_to_coins(&a.natives);
                coins.retain(|c| !c.amount.is_zero());
                (a.name.clone(), coins)
            })
            .collect();
        let mut chain = build_chain(&balances);
        let owner = Addr::unchecked(cfg.owner.clone());
        let mut tokens = vec![];
        for (i, t) in cfg.tokens.iter().enumerate() {
            let initial: Vec<Cw20Coin> = cfg
                .actors
                .iter()
                .filter(|a| a.tokens.get(i).map_or(false, |v| !v.is_zero()))
                .map(|a| Cw20Coin {
                    address: a.name.clone(),
                    amount: a.tokens[i],
                })
                .collect();
            let addr = chain
                .app
                .instantiate_contract(
                    CODE_CW20,
                    owner.clone(),
                    &cw20_base::msg::InstantiateMsg {
                        name: format!("token{}", i),
                        symbol: "TKN".to_string(),
                        decimals: t.decimals,
                        initial_balances: initial,
                        mint: Some(MinterResponse {
                            minter: cfg.owner.clone(),
                            cap: None,
                        }),
                        marketing: None,
                    },
                    &[],
                    "token",
                    None,
                )
                .expect("token instantiation");
            tokens.push(addr.to_string());
        }
        let factory = chain
            .app
            .instantiate_contract(
                CODE_FACTORY,
                owner.clone(),
                &haloswap::factory::InstantiateMsg {
                    pair_code_id: CODE_PAIR,
                    token_code_id: CODE_CW20,
                },
                &[],
                "factory",
                Some(cfg.owner.clone()),
            )
            .expect("factory instantiation")
            .to_string();
        let router = chain
            .app
            .instantiate_contract(
                CODE_ROUTER,
                owner.clone(),
                &haloswap::router::InstantiateMsg {
                    halo_factory: factory.clone(),
                },
                &[],
                "router",
                Some(cfg.owner.clone()),
            )
            .expect("router instantiation")
            .to_string();
        let rogue = chain
            .app
            .instantiate_contract(
                CODE_ROGUE,
                owner,
                &RogueInit {
                    factory: Some(factory.clone()),
                },
                &[],
                "rogue",
                None,
            )
            .expect("rogue instantiation")
            .to_string();
        chain.store.take_journal();
        let ledger = Ledger::from_storage(&chain.store, CODE_CW20);
        let model = Model {
            tokens,
            token_decimals: cfg.tokens.iter().map(|t| t.decimals).collect(),
            factory,
            router,
            rogue,
            pairs: vec![],
            natives: BTreeMap::new(),
            owner: cfg.owner.clone(),
            former_owners: vec![],
            pair_code_id: CODE_PAIR,
            token_code_id: CODE_CW20,
            actors: cfg.actors.iter().map(|a| a.name.clone()).collect(),
            bystanders: cfg.bystanders.clone(),
            denoms: cfg.denoms.clone(),
        };
        Sim {
            chain,
            ledger,
            model,
            cfg: cfg.clone(),
        }
    }

    pub fn set_clock(&mut self, t: u64, height: u64) {
        let b = start_block();
        self.chain.app.set_block(BlockInfo {
            height: b.height + height,
            time: Timestamp::from_seconds(b.time.seconds() + t),
            chain_id: b.chain_id,
        });
    }

    // ------------------------------------------------------------------ message building

    fn asset(&self, a: &AssetAmt) -> Result<Asset, String> {
        Ok(Asset {
            info: self
                .model
                .asset_info(&a.asset)
                .ok_or_else(|| format!("dangling asset ref {:?}", a.asset))?,
            amount: a.amount,
        })
    }
    fn addr_opt(&self, r: &Option<AddrRef>) -> Result<Option<String>, String> {
        match r {
            None => Ok(None),
            Some(x) => Ok(Some(
                self.model
                    .addr(x)
                    .ok_or_else(|| format!("dangling addr ref {:?}", x))?,
            )),
        }
    }
    fn hops(&self, hops: &[Hop]) -> Result<Vec<haloswap::router::SwapOperation>, String> {
        hops.iter()
            .map(|h| {
                Ok(haloswap::router::SwapOperation::HaloSwap {
                    offer_asset_info: self
                        .model
                        .asset_info(&h.offer)
                        .ok_or_else(|| "dangling hop".to_string())?,
                    ask_asset_info: self
                        .model
                        .asset_info(&h.ask)
                        .ok_or_else(|| "dangling hop".to_string())?,
                })
            })
            .collect()
    }
    fn wasm_exec<T: Serialize>(target: &str, msg: &T, funds: Vec<Coin>) -> CosmosMsg {
        CosmosMsg::Wasm(WasmMsg::Execute {
            contract_addr: target.to_string(),
            msg: to_binary(msg).expect("serialise"),
            funds,
        })
    }

    pub fn build_msgs(&self, sender: &str, op: &Op) -> Result<Vec<CosmosMsg>, String> {
        let m = &self.model;
        let pair_addr = |i: &usize| -> Result<String, String> {
            m.pairs
                .get(*i)
                .map(|p| p.addr.clone())
                .ok_or_else(|| format!("dangling pair ref {}", i))
        };
        Ok(match op {
            Op::Transfer { asset, to, amount } => {
                let to = m.addr(to).ok_or("dangling to")?;
                match m.asset_info(asset).ok_or("dangling asset")? {
                    AssetInfo::NativeToken { denom } => vec![CosmosMsg::Bank(BankMsg::Send {
                        to_address: to,
                        amount: vec![Coin {
                            denom,
                            amount: *amount,
                        }],
                    })],
                    AssetInfo::Token { contract_addr } => vec![Self::wasm_exec(
                        &contract_addr,
                        &Cw20ExecuteMsg::Transfer {
                            recipient: to,
                            amount: *amount,
                        },
                        vec![],
                    )],
                }
            }
            Op::Approve {
                token,
                spender,
                amount,
                expires,
            } => {
                let t = m.cw20_addr(token).ok_or("approve: not a cw20")?;
                let b = start_block();
                vec![Self::wasm_exec(
                    &t,
                    &Cw20ExecuteMsg::IncreaseAllowance {
                        spender: m.addr(spender).ok_or("dangling spender")?,
                        amount: *amount,
                        expires: Some(match expires {
                            Expiry::Never => Expiration::Never {},
                            Expiry::AtHeight(h) => Expiration::AtHeight(b.height + h),
                            Expiry::AtTime(s) => {
                                Expiration::AtTime(Timestamp::from_seconds(b.time.seconds() + s))
                            }
                        }),
                    },
                    vec![],
                )]
            }
            Op::Provide {
                pair,
                assets,
                funds,
                slippage,
                receiver,
            } => vec![Self::wasm_exec(
                &pair_addr(pair)?,
                &haloswap::pair::ExecuteMsg::ProvideLiquidity {
                    assets: [self.asset(&assets[0])?, self.asset(&assets[1])?],
                    slippage_tolerance: *slippage,
                    receiver: self.addr_opt(receiver)?,
                },
                funds_to_coins(funds),
            )],
            Op::Withdraw { pair, amount } => {
                let p = m.pairs.get(*pair).ok_or("dangling pair")?;
                vec![Self::wasm_exec(
                    &p.lp,
                    &Cw20ExecuteMsg::Send {
                        contract: p.addr.clone(),
                        amount: *amount,
                        msg: to_binary(&haloswap::pair::Cw20HookMsg::WithdrawLiquidity {}).unwrap(),
                    },
                    vec![],
                )]
            }
            Op::SwapExec {
                pair,
                offer,
                funds,
                belief,
                max_spread,
                to,
            } => vec![Self::wasm_exec(
                &pair_addr(pair)?,
                &haloswap::pair::ExecuteMsg::Swap {
                    offer_asset: self.asset(offer)?,
                    belief_price: *belief,
                    max_spread: *max_spread,
                    to: self.addr_opt(to)?,
                },
                funds_to_coins(funds),
            )],
            Op::SwapHook {
                pair,
                via,
                sent,
                offer,
                belief,
                max_spread,
                to,
                from,
            } => {
                let hook = to_binary(&haloswap::pair::Cw20HookMsg::Swap {
                    offer_asset: self.asset(offer)?,
                    belief_price: *belief,
                    max_spread: *max_spread,
                    to: self.addr_opt(to)?,
                })
                .unwrap();
                let pair_addr = pair_addr(pair)?;
                match via {
                    Via::Cw20(a) => {
                        let token = m.cw20_addr(a).ok_or("hook via non-cw20")?;
                        match from {
                            None => vec![Self::wasm_exec(
                                &token,
                                &Cw20ExecuteMsg::Send {
                                    contract: pair_addr,
                                    amount: *sent,
                                    msg: hook,
                                },
                                vec![],
                            )],
                            Some(owner) => vec![Self::wasm_exec(
                                &token,
                                &Cw20ExecuteMsg::SendFrom {
                                    owner: m.addr(owner).ok_or("dangling owner")?,
                                    contract: pair_addr,
                                    amount: *sent,
                                    msg: hook,
                                },
                                vec![],
                            )],
                        }
                    }
                    Via::Rogue => vec![Self::wasm_exec(
                        &m.rogue,
                        &RogueExec::Forward {
                            target: pair_addr,
                            msg: to_binary(&haloswap::pair::ExecuteMsg::Receive(Cw20ReceiveMsg {
                                sender: sender.to_string(),
                                amount: *sent,
                                msg: hook,
                            }))
                            .unwrap(),
                            funds: vec![],
                        },
                        vec![],
                    )],
                }
            }
            Op::RouteExec {
                hops,
                funds,
                min_receive,
                to,
            } => vec![Self::wasm_exec(
                &m.router,
                &haloswap::router::ExecuteMsg::ExecuteSwapOperations {
                    operations: self.hops(hops)?,
                    minimum_receive: *min_receive,
                    to: self.addr_opt(to)?,
                },
                funds_to_coins(funds),
            )],
            Op::RouteHook {
                via,
                sent,
                hops,
                min_receive,
                to,
            } => vec![Self::wasm_exec(
                &m.cw20_addr(via).ok_or("route hook via non-cw20")?,
                &Cw20ExecuteMsg::Send {
                    contract: m.router.clone(),
                    amount: *sent,
                    msg: to_binary(&haloswap::router::Cw20HookMsg::ExecuteSwapOperations {
                        operations: self.hops(hops)?,
                        minimum_receive: *min_receive,
                        to: self.addr_opt(to)?,
                    })
                    .unwrap(),
                },
                vec![],
            )],
            Op::CreatePair {
                assets,
                whitelist,
                min0,
                min1,
                commission,
                lp_decimals,
            } => {
                let commission_rate = match commission {
                    None => None,
                    Some(s) => Some(
                        Decimal256::from_str(s).map_err(|e| format!("bad commission: {}", e))?,
                    ),
                };
                let wl: Result<Vec<Addr>, String> = whitelist
                    .iter()
                    .map(|w| {
                        m.addr(w)
                            .map(Addr::unchecked)
                            .ok_or_else(|| "dangling whitelist".to_string())
                    })
                    .collect();
                vec![Self::wasm_exec(
                    &m.factory,
                    &haloswap::factory::ExecuteMsg::CreatePair {
                        asset_infos: [
                            m.asset_info(&assets[0]).ok_or("dangling asset")?,
                            m.asset_info(&assets[1]).ok_or("dangling asset")?,
                        ],
                        requirements: CreatePairRequirements {
                            whitelist: wl?,
                            first_asset_minimum: *min0,
                            second_asset_minimum: *min1,
                        },
                        commission_rate,
                        lp_token_info: LPTokenInfo {
                            lp_token_name: "halo-lp".to_string(),
                            lp_token_symbol: "HLP".to_string(),
                            lp_token_decimals: *lp_decimals,
                        },
                    },
                    vec![],
                )]
            }
            Op::AddNativeDecimals { denom, decimals } => vec![Self::wasm_exec(
                &m.factory,
                &haloswap::factory::ExecuteMsg::AddNativeTokenDecimals {
                    denom: denom.clone(),
                    decimals: *decimals,
                },
                vec![],
            )],
            Op::UpdateConfig {
                owner,
                token_code_id,
                pair_code_id,
            } => vec![Self::wasm_exec(
                &m.factory,
                &haloswap::factory::ExecuteMsg::UpdateConfig {
                    owner: self.addr_opt(owner)?,
                    token_code_id: *token_code_id,
                    pair_code_id: *pair_code_id,
                },
                vec![],
            )],
            Op::MigratePair { pair, code_id } => vec![Self::wasm_exec(
                &m.factory,
                &haloswap::factory::ExecuteMsg::MigratePair {
                    contract: m.addr(pair).ok_or("dangling pair")?,
                    code_id: *code_id,
                },
                vec![],
            )],
            Op::Migrate { target, code_id } => vec![CosmosMsg::Wasm(WasmMsg::Migrate {
                contract_addr: m.addr(target).ok_or("dangling target")?,
                new_code_id: *code_id,
                msg: Binary::from(b"{}".as_slice()),
            })],
            Op::Raw { target, msg, funds } => vec![CosmosMsg::Wasm(WasmMsg::Execute {
                contract_addr: m.addr(target).ok_or("dangling target")?,
                msg: Binary::from(msg.as_bytes()),
                funds: funds_to_coins(funds),
            })],
            Op::Batch(ops) => {
                let mut out = vec![];
                for o in ops {
                    out.extend(self.build_msgs(sender, o)?);
                }
                out
            }
            _ => return Err("audit op has no messages".to_string()),
        })
    }

    // ------------------------------------------------------------------------ execution

    /// Execute messages as one atomic transaction. The journal of committed writes is
    /// returned; the caller decides whether to keep (apply to ledger) or undo it.
    pub fn exec_tx(&mut self, sender: &str, msgs: Vec<CosmosMsg>, fail_at: Option<u32>) -> ExecResult {
        debug_assert_eq!(self.chain.store.journal_len(), 0);
        self.chain.ctl.begin_tx(fail_at);
        let app = &mut self.chain.app;
        let sender_addr = Addr::unchecked(sender);
        let res = catch_unwind(AssertUnwindSafe(|| app.execute_multi(sender_addr, msgs)));
        let (trace, injected) = self.chain.ctl.end_tx();
        let journal = self.chain.store.take_journal();
        let outcome = match res {
            Ok(Ok(r)) => Outcome::Ok(r),
            Ok(Err(e)) => Outcome::Err(format!("{:#}", e)),
            Err(_) => Outcome::Abort(take_panic()),
        };
        ExecResult {
            outcome,
            trace,
            injected,
            journal,
        }
    }

    /// run an op as a dry-run: execute, decode the delta, roll everything back
    pub fn dry_run(&mut self, sender: &str, op: &Op, fail_at: Option<u32>) -> (Outcome, Delta, Vec<Dispatch>) {
        let msgs = match self.build_msgs(sender, op) {
            Ok(m) => m,
            Err(e) => return (Outcome::Skipped(e), Delta::default(), vec![]),
        };
        let r = self.exec_tx(sender, msgs, fail_at);
        let delta = self.ledger.decode(&r.journal);
        self.chain.store.undo(&r.journal);
        (r.outcome, delta, r.trace)
    }

    // --------------------------------------------------------------------------- queries

    pub fn query<T: DeserializeOwned, Q: Serialize>(&self, contract: &str, msg: &Q) -> Result<T, String> {
        let app = &self.chain.app;
        let r = catch_unwind(AssertUnwindSafe(|| {
            app.wrap().query_wasm_smart::<T>(contract.to_string(), msg)
        }));
        match r {
            Ok(Ok(v)) => Ok(v),
            Ok(Err(e)) => Err(format!("{}", e)),
            Err(_) => Err(format!("abort: {}", take_panic())),
        }
    }

    pub fn q_bank(&self, account: &str, denom: &str) -> u128 {
        self.chain
            .app
            .wrap()
            .query_balance(account.to_string(), denom.to_string())
            .map(|c| c.amount.u128())
            .unwrap_or(0)
    }
    pub fn q_cw20(&self, token: &str, account: &str) -> Result<u128, String> {
        self.query::<cw20::BalanceResponse, _>(
            token,
            &cw20::Cw20QueryMsg::Balance {
                address: account.to_string(),
            },
        )
        .map(|b| b.balance.u128())
    }

    /// self-check: the storage-decoded ledger agrees with the public queries
    pub fn ledger_matches_queries(&self) -> Result<(), String> {
        let fresh = Ledger::from_storage(&self.chain.store, CODE_CW20);
        if fresh.bal != self.ledger.bal || fresh.supply != self.ledger.supply {
            let mut diff = vec![];
            for (k, v) in fresh.bal.iter() {
                if self.ledger.bal.get(k) != Some(v) {
                    diff.push(format!("{:?}: fresh {} incremental {:?}", k, v, self.ledger.bal.get(k)));
                }
            }
            for (k, v) in self.ledger.bal.iter() {
                if !fresh.bal.contains_key(k) {
                    diff.push(format!("{:?}: only incremental {}", k, v));
                }
            }
            for (k, v) in fresh.supply.iter() {
                if self.ledger.supply.get(k) != Some(v) {
                    diff.push(format!("supply {}: fresh {} incremental {:?}", k, v, self.ledger.supply.get(k)));
                }
            }
            diff.truncate(4);
            return Err(format!("incremental ledger differs from a fresh decode: {}", diff.join("; ")));
        }
        for ((asset, account), v) in self.ledger.bal.iter() {
            let q = if let Some(d) = asset.strip_prefix("n:") {
                self.q_bank(account, d)
            } else {
                self.q_cw20(&asset[2..], account)?
            };
            if q != *v {
                return Err(format!(
                    "ledger {}@{} = {} but query says {}",
                    asset, account, v, q
                ));
            }
        }
        for (asset, s) in self.ledger.supply.iter() {
            let ti: cw20::TokenInfoResponse =
                self.query(&asset[2..], &cw20::Cw20QueryMsg::TokenInfo {})?;
            if ti.total_supply.u128() != *s {
                return Err(format!("supply {} mismatch", asset));
            }
        }
        Ok(())
    }

    pub fn u(v: u128) -> Uint128 {
        Uint128::new(v)
    }
}
