mod audit;
mod bignat;
mod check;
mod cover;
mod gen_a;
mod gen_b;
mod ledger;
mod ops;
mod orc_factory;
mod orc_guard;
mod orc_pair;
mod orc_router;
mod prng;
mod profile;
mod runner;
mod sim;
mod step;
mod world;

fn usage() -> ! {
    eprintln!(
        "usage:\n  halosim check <Cxx> <quick|thorough> [--runs N] [--threads N]\n  halosim replay <file>\n  halosim selftest determinism [--runs N]\n  halosim show <Cxx> <run-index>"
    );
    std::process::exit(2);
}

fn main() {
    sim::install_panic_hook();
    let args: Vec<String> = std::env::args().collect();
    if args.len() < 2 {
        usage();
    }
    let code = match args[1].as_str() {
        "check" if args.len() >= 4 => check::cmd_check(&args[2], &args[3], &args[4..]),
        "replay" if args.len() >= 3 => check::cmd_replay(&args[2]),
        "selftest" if args.len() >= 3 => check::cmd_selftest(&args[2], &args[3..]),
        "show" if args.len() >= 4 => check::cmd_show(&args[2], args[3].parse().unwrap_or(0)),
        "digests" if args.len() >= 5 => check::cmd_digests(&args[2], args[3].parse().unwrap_or(0), args[4].parse().unwrap_or(0), &args[5..]),
        _ => usage(),
    };
    std::process::exit(code);
}
