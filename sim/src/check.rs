//! The checks: seeded search over runs, known-findings matching, minimisation, replay,
//! evidence. Exit codes: 0 held, 1 violation, 2 harness error.

use std::collections::{BTreeMap, BTreeSet};
use std::sync::atomic::{AtomicU64, Ordering};
use std::sync::{Arc, Mutex};
use std::time::Instant;

use serde::{Deserialize, Serialize};

use crate::cover::{fnv, Cover, Violation};
use crate::ops::*;
use crate::prng::derive_seed;
use crate::profile::{profile_for, Profile};
use crate::runner::Runner;
use crate::sim::Sim;

pub const DEFAULT_SEED: u64 = 20261002;
pub const PROPS: [&str; 18] = [
    "C01", "C02", "C03", "C04", "C05", "C06", "C07", "C09", "C10", "C11", "C12", "C13", "C14", "C15",
    "C16", "C17", "C19", "C20",
];

/// the verification root: VERIF_ROOT, else the directory that contains sim/ of the running
/// binary (so a snapshot copy of /verif writes into itself), else /verif
fn root() -> String {
    if let Ok(r) = std::env::var("VERIF_ROOT") {
        return r;
    }
    if let Ok(exe) = std::env::current_exe() {
        // <root>/sim/target/release/halosim
        if let Some(r) = exe.ancestors().nth(4) {
            if r.join("sim").join("Cargo.toml").exists() {
                return r.to_string_lossy().to_string();
            }
        }
    }
    "/verif".to_string()
}

fn base_seed() -> u64 {
    std::env::var("VERIF_SEED")
        .ok()
        .and_then(|s| s.trim().parse::<u64>().ok())
        .unwrap_or(DEFAULT_SEED)
}

fn arg_val(args: &[String], name: &str) -> Option<u64> {
    args.iter()
        .position(|a| a == name)
        .and_then(|i| args.get(i + 1))
        .and_then(|v| v.parse().ok())
}

#[derive(Serialize, Deserialize, Clone, Debug)]
pub struct KnownFinding {
    pub id: String,
    pub status: String,
    pub property: String,
    pub clauses: Vec<String>,
    pub cause_class: String,
    pub what_fails: String,
    #[serde(default)]
    pub evidence: serde_json::Value,
    #[serde(default)]
    pub commit: Option<String>,
}

fn load_known() -> Result<Vec<KnownFinding>, String> {
    let path = format!("{}/known_findings.json", root());
    match std::fs::read_to_string(&path) {
        Ok(s) => serde_json::from_str(&s).map_err(|e| format!("{}: {}", path, e)),
        Err(_) => Ok(vec![]),
    }
}

fn known_match<'a>(known: &'a [KnownFinding], v: &Violation) -> Option<&'a KnownFinding> {
    known.iter().find(|k| {
        k.status == "open" && k.property == v.prop && k.cause_class == v.cause && k.clauses.contains(&v.clause)
    })
}

#[derive(Serialize, Deserialize, Clone, Debug)]
pub struct ReplayFile {
    pub format: u32,
    pub property: String,
    pub clause: String,
    pub cause_class: String,
    pub seed: u64,
    pub run_index: u64,
    pub profile: String,
    pub repo_rev: String,
    pub world: WorldCfg,
    pub events: Vec<Event>,
    pub expect: ReplayExpect,
    pub unminimised_events: usize,
}

#[derive(Serialize, Deserialize, Clone, Debug)]
pub struct ReplayExpect {
    pub step: u64,
    pub summary: String,
}

pub struct RunResult {
    pub index: u64,
    pub seed: u64,
    pub cov: Cover,
    pub events: usize,
    pub txs: u64,
    pub sim_seconds: u64,
    pub blocks: u64,
    pub log_digest: u64,
    pub shape_digest: u64,
    pub world: Option<WorldCfg>,
    pub event_list: Option<Vec<Event>>,
    pub ledger_ok: Result<(), String>,
}

pub fn one_run(prop: &str, profile: &Profile, base: u64, index: u64, keep: bool, tier_scale: u64) -> RunResult {
    let seed = derive_seed(base, prop, index);
    let mut p = profile.clone();
    if tier_scale > 1 {
        // thorough: longer histories, and every fourth run uses the general mix of actors
        // (keeping the property's probes) instead of the property's own profile
        if index % 4 == 3 {
            let base = profile_for("mixed");
            p.actors = base.actors;
            p.n_pairs = (p.n_pairs.0.max(1), p.n_pairs.1.max(base.n_pairs.1));
        }
        p.ticks = (p.ticks.0, p.ticks.1 * 3 / 2);
    }
    let mut r = Runner::new(seed, p);
    r.run();
    // the storage-decoded ledger must agree with the public queries (sampled: cost)
    let ledger_ok = if index % 16 == 0 {
        r.sim.ledger_matches_queries()
    } else {
        Ok(())
    };
    let has_violation = !r.cov.violations.is_empty();
    RunResult {
        index,
        seed,
        events: r.events.len(),
        txs: r.delivered,
        sim_seconds: r.t,
        blocks: r.height,
        log_digest: r.log_digest,
        shape_digest: r.shape_digest,
        world: if keep || has_violation { Some(r.sim.cfg.clone()) } else { None },
        event_list: if keep || has_violation { Some(r.events.clone()) } else { None },
        cov: r.cov,
        ledger_ok,
    }
}

/// replay a concrete event list in a fresh world; returns all violations
pub fn replay_events(world: &WorldCfg, events: &[Event]) -> Vec<Violation> {
    let mut sim = Sim::new(world);
    let mut cov = Cover::default();
    for ev in events {
        sim.step(ev, &mut cov);
    }
    cov.violations
}

fn reproduces(world: &WorldCfg, events: &[Event], prop: &str, clause: &str, cause: &str) -> Option<Violation> {
    // renumber so that violation.seq is the index in this list
    let evs: Vec<Event> = events
        .iter()
        .enumerate()
        .map(|(i, e)| Event {
            seq: i as u64,
            ..e.clone()
        })
        .collect();
    replay_events(world, &evs)
        .into_iter()
        .find(|v| v.prop == prop && v.clause == clause && v.cause == cause)
}

/// which pair index (if any) each event created, learned by replaying
fn pair_ordinals(world: &WorldCfg, events: &[Event]) -> Vec<Option<usize>> {
    let mut sim = Sim::new(world);
    let mut cov = Cover::default();
    let mut out = vec![];
    for ev in events {
        let before = sim.model.pairs.len();
        sim.step(ev, &mut cov);
        out.push(if sim.model.pairs.len() > before { Some(before) } else { None });
    }
    out
}

/// rewrite every pair / LP index in a JSON-encoded event; None if it refers to `removed`
fn remap_value(v: &mut serde_json::Value, removed: usize) -> bool {
    match v {
        serde_json::Value::Object(m) => {
            for (k, x) in m.iter_mut() {
                if (k == "pair" || k == "lp") && x.is_u64() {
                    let i = x.as_u64().unwrap() as usize;
                    if i == removed {
                        return false;
                    }
                    if i > removed {
                        *x = serde_json::Value::from((i - 1) as u64);
                    }
                } else if !remap_value(x, removed) {
                    return false;
                }
            }
            true
        }
        serde_json::Value::Array(a) => a.iter_mut().all(|x| remap_value(x, removed)),
        _ => true,
    }
}

/// drop the creation of pair `j` (event `at`), every event that refers to it, and shift the
/// indices of later pairs down
fn drop_pair(events: &[Event], at: usize, j: usize) -> Vec<Event> {
    let mut out = vec![];
    for (i, e) in events.iter().enumerate() {
        if i == at {
            continue;
        }
        let mut v = serde_json::to_value(e).unwrap();
        if !remap_value(&mut v, j) {
            continue;
        }
        if let Ok(e2) = serde_json::from_value::<Event>(v) {
            out.push(e2);
        }
    }
    out
}

fn collect_amounts(v: &serde_json::Value, out: &mut Vec<String>) {
    match v {
        serde_json::Value::Object(m) => {
            for (k, x) in m.iter() {
                if matches!(k.as_str(), "amount" | "sent" | "min_receive" | "min0" | "min1") {
                    if let Some(s) = x.as_str() {
                        if s.parse::<u128>().map_or(false, |n| n > 1) && !out.contains(&s.to_string()) {
                            out.push(s.to_string());
                        }
                    }
                }
                collect_amounts(x, out);
            }
        }
        serde_json::Value::Array(a) => a.iter().for_each(|x| collect_amounts(x, out)),
        _ => {}
    }
}

fn replace_amount(v: &mut serde_json::Value, from: &str, to: &str) {
    match v {
        serde_json::Value::Object(m) => {
            for (k, x) in m.iter_mut() {
                if matches!(k.as_str(), "amount" | "sent" | "min_receive" | "min0" | "min1") && x.as_str() == Some(from) {
                    *x = serde_json::Value::String(to.to_string());
                } else {
                    replace_amount(x, from, to);
                }
            }
        }
        serde_json::Value::Array(a) => a.iter_mut().for_each(|x| replace_amount(x, from, to)),
        _ => {}
    }
}

/// shrink amounts: every occurrence of one numeric value inside an event (declared amount,
/// attached funds, amount sent) is replaced together, toward round and small values
fn shrink_amounts(world: &WorldCfg, events: &[Event], prop: &str, clause: &str, cause: &str, deadline: Instant) -> Vec<Event> {
    let mut cur = events.to_vec();
    for i in 0..cur.len() {
        let mut vals = vec![];
        collect_amounts(&serde_json::to_value(&cur[i]).unwrap(), &mut vals);
        for val in vals {
            let mut v: u128 = val.parse().unwrap();
            let mut from = val.clone();
            for _ in 0..12 {
                if Instant::now() > deadline {
                    return cur;
                }
                let digits = v.to_string().len() as u32;
                let round = 10u128.pow(digits - 1);
                let cands: Vec<u128> = [round, v / 2, v - v % round.max(1)]
                    .into_iter()
                    .filter(|c| *c >= 1 && *c < v)
                    .collect();
                let mut progressed = false;
                for c in cands {
                    let mut j = serde_json::to_value(&cur[i]).unwrap();
                    replace_amount(&mut j, &from, &c.to_string());
                    if let Ok(e2) = serde_json::from_value::<Event>(j) {
                        let mut cand = cur.clone();
                        cand[i] = e2;
                        if reproduces(world, &cand, prop, clause, cause).map_or(false, |f| f.seq as usize == cand.len() - 1) {
                            cur = cand;
                            from = c.to_string();
                            v = c;
                            progressed = true;
                            break;
                        }
                    }
                }
                if !progressed {
                    break;
                }
            }
        }
    }
    cur
}

/// delta debugging over the event list, then drop every event after the violating step
pub fn minimise(world: &WorldCfg, events: &[Event], v: &Violation) -> Vec<Event> {
    let (prop, clause, cause) = (v.prop.as_str(), v.clause.as_str(), v.cause.as_str());
    let mut cur: Vec<Event> = events.to_vec();
    // cut the tail after the first reproduction
    if let Some(f) = reproduces(world, &cur, prop, clause, cause) {
        cur.truncate(f.seq as usize + 1);
    } else {
        return cur;
    }
    let mut chunk = (cur.len() / 2).max(1);
    let deadline = Instant::now() + std::time::Duration::from_secs(60);
    while chunk >= 1 {
        let mut i = 0;
        let mut progressed = false;
        while i < cur.len() {
            if Instant::now() > deadline {
                break;
            }
            let end = (i + chunk).min(cur.len());
            let mut cand = cur[..i].to_vec();
            cand.extend_from_slice(&cur[end..]);
            if !cand.is_empty() {
                if let Some(f) = reproduces(world, &cand, prop, clause, cause) {
                    cand.truncate(f.seq as usize + 1);
                    cur = cand;
                    progressed = true;
                    continue;
                }
            }
            i += chunk;
        }
        if chunk == 1 && !progressed {
            break;
        }
        if !progressed || chunk > 1 {
            chunk = if chunk == 1 { 1 } else { chunk / 2 };
        }
        if Instant::now() > deadline {
            break;
        }
    }
    // drop whole pairs that the violation does not need (with index remapping), then one more
    // single-event pass
    loop {
        let ords = pair_ordinals(world, &cur);
        let mut changed = false;
        for (at, o) in ords.iter().enumerate().rev() {
            if let Some(j) = o {
                let cand = drop_pair(&cur, at, *j);
                if let Some(f) = reproduces(world, &cand, prop, clause, cause) {
                    let mut cand = cand;
                    cand.truncate(f.seq as usize + 1);
                    cur = cand;
                    changed = true;
                    break;
                }
            }
        }
        if !changed || Instant::now() > deadline {
            break;
        }
    }
    let mut i = 0;
    while i < cur.len() && Instant::now() <= deadline {
        let mut cand = cur.clone();
        cand.remove(i);
        if !cand.is_empty() {
            if let Some(f) = reproduces(world, &cand, prop, clause, cause) {
                cand.truncate(f.seq as usize + 1);
                cur = cand;
                continue;
            }
        }
        i += 1;
    }
    cur = shrink_amounts(world, &cur, prop, clause, cause, deadline);
    // per-event simplification: drop optional fields
    for i in 0..cur.len() {
        let mut cand = cur.clone();
        let e = &mut cand[i];
        let mut changed = false;
        match &mut e.op {
            Op::SwapExec { to, belief, max_spread, .. } | Op::SwapHook { to, belief, max_spread, .. } => {
                if to.is_some() {
                    *to = None;
                    changed = true;
                }
                if v.prop != "C10" && (belief.is_some() || max_spread.is_some()) {
                    *belief = None;
                    *max_spread = None;
                    changed = true;
                }
            }
            Op::Provide { receiver, slippage, .. } => {
                if receiver.is_some() {
                    *receiver = None;
                    changed = true;
                }
                if v.prop != "C15" && slippage.is_some() {
                    *slippage = None;
                    changed = true;
                }
            }
            _ => {}
        }
        if !e.note.is_empty() && e.fail_at.is_none() {
            // keep notes; they do not affect execution
        }
        if changed && reproduces(world, &cand, prop, clause, cause).is_some() {
            cur = cand;
        }
    }
    cur.iter()
        .enumerate()
        .map(|(i, e)| Event {
            seq: i as u64,
            ..e.clone()
        })
        .collect()
}

fn repo_rev() -> String {
    std::process::Command::new("git")
        .args(["-C", "/repo", "rev-parse", "--short", "HEAD"])
        .output()
        .ok()
        .map(|o| String::from_utf8_lossy(&o.stdout).trim().to_string())
        .unwrap_or_default()
}

fn quick_runs(prop: &str) -> u64 {
    match prop {
        "C17" | "C19" | "C16" => 1500,
        "C14" => 800,
        "C11" | "C13" => 3000,
        _ => 4000,
    }
}

pub fn cmd_check(prop: &str, tier: &str, rest: &[String]) -> i32 {
    if !PROPS.contains(&prop) {
        eprintln!("unknown or unclaimed property {}", prop);
        return 2;
    }
    if tier != "quick" && tier != "thorough" {
        eprintln!("tier must be quick or thorough");
        return 2;
    }
    let known = match load_known() {
        Ok(k) => k,
        Err(e) => {
            eprintln!("harness error: {}", e);
            return 2;
        }
    };
    let base = base_seed();
    let profile = profile_for(prop);
    let threads = arg_val(rest, "--threads").unwrap_or(16).max(1) as usize;
    let thorough = tier == "thorough";
    let runs = arg_val(rest, "--runs").unwrap_or(if thorough { quick_runs(prop) * 40 } else { quick_runs(prop) });
    let wall_cap = arg_val(rest, "--wall").unwrap_or(if thorough { 900 } else { 600 });
    println!("halosim check {} {} base_seed={} runs<={} threads={} profile={}", prop, tier, base, runs, threads, profile.name);
    let started = Instant::now();
    let next = Arc::new(AtomicU64::new(0));
    let results: Arc<Mutex<Vec<RunResult>>> = Arc::new(Mutex::new(vec![]));
    let batch: u64 = 500;
    let mut done_upto = 0u64;
    // batches keep the explored set a prefix of the run indices whatever the thread timing
    while done_upto < runs {
        let hi = (done_upto + batch).min(runs);
        next.store(done_upto, Ordering::SeqCst);
        let mut handles = vec![];
        for _ in 0..threads {
            let next = next.clone();
            let results = results.clone();
            let profile = profile.clone();
            let prop = prop.to_string();
            handles.push(std::thread::spawn(move || {
                crate::sim::install_panic_hook();
                loop {
                    let i = next.fetch_add(1, Ordering::SeqCst);
                    if i >= hi {
                        break;
                    }
                    let r = one_run(&prop, &profile, base, i, i < 2, if thorough { 2 } else { 1 });
                    results.lock().unwrap().push(r);
                }
            }));
        }
        for h in handles {
            if let Err(e) = h.join() {
                let msg = e
                    .downcast_ref::<String>()
                    .cloned()
                    .or_else(|| e.downcast_ref::<&str>().map(|s| s.to_string()))
                    .unwrap_or_default();
                eprintln!("harness error: worker thread panicked: {} [{}]", msg, crate::sim::last_panic());
                return 2;
            }
        }
        done_upto = hi;
        if started.elapsed().as_secs() > wall_cap {
            break;
        }
    }
    let mut results = Arc::try_unwrap(results).ok().unwrap().into_inner().unwrap();
    results.sort_by_key(|r| r.index);
    // ---- merge
    let mut cov = Cover::default();
    let mut shapes: BTreeSet<u64> = BTreeSet::new();
    let (mut events, mut txs, mut sim_s, mut blocks) = (0u64, 0u64, 0u64, 0u64);
    for r in &results {
        cov.merge(&r.cov);
        shapes.insert(r.shape_digest);
        events += r.events as u64;
        txs += r.txs;
        sim_s += r.sim_seconds;
        blocks += r.blocks;
        if let Err(e) = &r.ledger_ok {
            eprintln!("harness error: run {} ledger self-check failed: {}", r.index, e);
            return 2;
        }
    }
    // ---- triage violations of this property
    let mut known_hits: BTreeMap<String, (u64, String)> = BTreeMap::new();
    let mut new_classes: BTreeMap<String, (usize, Violation)> = BTreeMap::new();
    let mut other_props: BTreeMap<String, u64> = BTreeMap::new();
    let mut total_v = 0u64;
    for (ri, r) in results.iter().enumerate() {
        for v in &r.cov.violations {
            if v.prop != prop {
                *other_props.entry(v.class()).or_insert(0) += 1;
                continue;
            }
            total_v += 1;
            if let Some(k) = known_match(&known, v) {
                let e = known_hits.entry(k.id.clone()).or_insert((0, k.what_fails.clone()));
                e.0 += 1;
            } else {
                new_classes.entry(v.class()).or_insert((ri, v.clone()));
            }
        }
    }
    for (id, (cnt, what)) in &known_hits {
        let short: String = what.chars().take(180).collect();
        println!("KNOWN-FINDING: property={} {} [{} matched {} steps]", prop, short, id, cnt);
    }
    let mut exit = 0;
    let mut violation_lines = vec![];
    for (class, (ri, v)) in new_classes.iter().take(3) {
        let r = &results[*ri];
        let world = r.world.clone().unwrap();
        let evs = r.event_list.clone().unwrap();
        let min = minimise(&world, &evs, v);
        let found = reproduces(&world, &min, &v.prop, &v.clause, &v.cause);
        let (step, summary) = match &found {
            Some(f) => (f.seq, f.detail.clone()),
            None => (v.seq, v.detail.clone()),
        };
        let rf = ReplayFile {
            format: 1,
            property: v.prop.clone(),
            clause: v.clause.clone(),
            cause_class: v.cause.clone(),
            seed: base,
            run_index: r.index,
            profile: profile.name.to_string(),
            repo_rev: repo_rev(),
            world,
            events: min.clone(),
            expect: ReplayExpect { step, summary: summary.clone() },
            unminimised_events: evs.len(),
        };
        let body = serde_json::to_string_pretty(&rf).unwrap();
        let path = format!(
            "{}/replays/{}-{}-{:08x}.json",
            root(),
            prop,
            r.index,
            fnv(&body) as u32
        );
        let _ = std::fs::create_dir_all(format!("{}/replays", root()));
        if std::fs::write(&path, body).is_err() {
            eprintln!("harness error: cannot write {}", path);
            return 2;
        }
        // confirm in a fresh process
        let exe = std::env::current_exe().unwrap();
        let out = std::process::Command::new(exe).arg("replay").arg(&path).output();
        let confirmed = matches!(&out, Ok(o) if o.status.code() == Some(1));
        if !confirmed {
            eprintln!("harness error: replay of {} did not reproduce {} in a fresh process", path, class);
            return 2;
        }
        println!("violation class {} at run {} ({} events minimised to {}): {}", class, r.index, evs.len(), min.len(), summary);
        violation_lines.push(format!("VIOLATION property={} replay={}", prop, path));
        exit = 1;
    }
    for l in &violation_lines {
        println!("{}", l);
    }
    // ---- evidence
    let wall = started.elapsed().as_secs_f64();
    let evals: u64 = cov
        .evals
        .iter()
        .filter(|(k, _)| k.starts_with(&format!("{}.", prop)))
        .map(|(_, v)| *v)
        .sum();
    let distinct = cov.cases.get(prop).map(|s| s.len()).unwrap_or(0);
    let clause_evals: BTreeMap<&String, &u64> = cov
        .evals
        .iter()
        .filter(|(k, _)| k.starts_with(&format!("{}.", prop)))
        .collect();
    let sample_hist: Vec<serde_json::Value> = results
        .iter()
        .filter(|r| r.event_list.is_some())
        .take(1)
        .map(|r| {
            serde_json::json!({
                "run_index": r.index,
                "seed": r.seed,
                "world": {"denoms": r.world.as_ref().unwrap().denoms, "tokens": r.world.as_ref().unwrap().tokens},
                "first_events": r.event_list.as_ref().unwrap().iter().take(14).collect::<Vec<_>>(),
                "events_total": r.events,
            })
        })
        .collect();
    let mut samples: Vec<serde_json::Value> = cov
        .case_samples
        .get(prop)
        .map(|v| v.iter().map(|s| serde_json::json!({ "abstract_case": s })).collect())
        .unwrap_or_default();
    samples.extend(sample_hist);
    let zero_faults: Vec<&str> = relevant_faults(prop)
        .into_iter()
        .filter(|f| cov.faults.get(*f).copied().unwrap_or(0) == 0)
        .collect();
    for f in &zero_faults {
        println!("warning: fault kind {} relevant to {} never fired in this run", f, prop);
    }
    let level = if prop == "C09" || prop == "C14" { "fault_enumeration" } else { "exploration" };
    let ev = serde_json::json!({
        "property_id": prop,
        "tier": tier,
        "seed": base,
        "level": level,
        "coverage": {
            "evaluations": evals.max(0),
            "distinct_nontrivial": distinct,
            "rule": case_rule(prop),
            "samples": samples,
            "runs": results.len(),
            "run_index_range": [0, results.len()],
            "runs_per_hour": (results.len() as f64 / wall * 3600.0) as u64,
            "events_executed": events,
            "transactions_delivered": txs,
            "transactions_by_kind_and_outcome": cov.txs,
            "simulated_seconds": sim_s,
            "simulated_blocks": blocks,
            "faults_fired": cov.faults,
            "relevant_fault_kinds_at_zero": zero_faults,
            "reach_probes": cov.reach,
            "distinct_interleavings": shapes.len(),
            "interleaving_measure": "distinct hashes of the delivered (actor kind, operation kind, outcome) sequence of a run",
            "oracle_evaluations_by_clause": clause_evals,
            "violations_of_other_properties_seen": other_props,
            "known_findings_matched": known_hits.iter().map(|(k, v)| (k.clone(), v.0)).collect::<BTreeMap<_, _>>(),
            "components": {
                "real": ["halo-factory", "halo-pair", "halo-router", "haloswap", "bignumber (compiled from /repo working tree)", "cw20-base 1.0.0 (asset tokens and LP tokens)"],
                "stub": ["chain: cw-multi-test 0.16.1 App (message routing, sub-messages/replies, transactional storage, bank, MockApi address codec, block info)"],
                "harness": ["SimStorage with write journal", "FaultyWasm / FaultyBank dispatch numbering and injected message failure", "rogue20 counter-party contract", "BigNat oracles"],
                "not_modelled": ["wasm VM and gas (traps = caught panics; out-of-gas = injected message failure)", "bech32", "IBC"]
            },
            "exhaustive": false
        },
        "assumptions": [
            "contracts run as native code inside cw-multi-test; a panic is a trap that aborts the transaction",
            "pair assets are standard cw20-base tokens or bank denoms",
            "sampled search: a clean batch is evidence, not proof"
        ],
        "wall_s": wall,
        "violations": if exit == 1 { new_classes.len() as i64 } else { 0 },
    });
    let _ = std::fs::create_dir_all(format!("{}/evidence", root()));
    let epath = format!("{}/evidence/{}.json", root(), prop);
    if std::fs::write(&epath, serde_json::to_string_pretty(&ev).unwrap()).is_err() {
        eprintln!("harness error: cannot write {}", epath);
        return 2;
    }
    println!(
        "{} {}: runs={} events={} txs={} evaluations={} distinct_cases={} interleavings={} violations(new classes)={} known={} total_violating_steps={} wall={:.1}s",
        prop,
        tier,
        results.len(),
        events,
        txs,
        evals,
        distinct,
        shapes.len(),
        new_classes.len(),
        known_hits.len(),
        total_v,
        wall
    );
    if evals == 0 || distinct < 2 {
        eprintln!("harness error: the check evaluated nothing for {}", prop);
        return 2;
    }
    exit
}

fn relevant_faults(prop: &str) -> Vec<&'static str> {
    match prop {
        "C01" => vec!["F3_delivered_after_other_txs", "F8_donation_generated"],
        "C02" => vec!["F6_named_asset_ne_delivered", "F6_named_amount_ne_delivered", "F5_funds_ne_declared", "F11_rogue_forged_receive"],
        "C03" => vec!["F1_tx_dropped", "F2_tx_duplicated", "F3_delivered_after_other_txs", "F4_message_failure_injected", "F8_donation_generated"],
        "C05" => vec!["F9_clock_jump", "F12_missing_allowance_generated"],
        "C09" => vec!["F5_funds_ne_declared", "F5_provide_tampered"],
        "C10" | "C15" => vec!["F3_delivered_after_other_txs"],
        "C11" | "C13" => vec!["F3_delivered_after_other_txs", "F4_message_failure_injected"],
        "C14" => vec!["F7_privileged_from_non_authorised"],
        _ => vec![],
    }
}

fn case_rule(prop: &str) -> String {
    let tuple = match prop {
        "C01" => "(pair kind, path exec/hook/route, lg x /8, lg y /8, commission class, rounding-window class, swaps in tx)",
        "C02" => "(pair kind, named asset class, entry and delivered-vs-named class incl. amount relation and extra coins, receiver class, outcome) - counted for every outcome, the cell is a point of the enumerated message-shape cross product",
        "C03" => "(pair kind, operation kind, outcome, F4 injected?, lg r0 /16, lg r1 /16, lg S /16)",
        "C04" => "(pair kind, lg r /8, lg S /8, lg a /8, residue class of r*a mod S)",
        "C05" => "(pair kind, first/later, minimising side or whitelist/minimum class, lg deposits /8, lg reserves /8, lg S /8)",
        "C06" => "(source query/exec, lg x /8, lg y /8, lg a /8, commission class, remainder classes of the two 18-digit divisions)",
        "C07" => "(operation kind, pair kind or hop count, sender role, receiver class, number of changed balances)",
        "C09" => "(entry point, pair kind, declared class, attached class, extra coins, outcome)",
        "C10" => "(guard form, sign and size of decimals difference, boundary offset class in atoms, outcome ok/guard/other)",
        "C11" => "(hops, entry, asset-kind sequence, minimum_receive minus quote class, recipient class, F4?, outcome)",
        "C12" => "(probe kind, pair kind / direction / hops, magnitude buckets)",
        "C13" => "(hops, entry, asset-kind sequence, shape class, recipient class, outcome)",
        "C14" => "(message variant, caller role, outcome, history phase)",
        "C15" => "(pair kind, boundary offset class of each direction, outcome ok/guard/other)",
        "C16" => "(creation: asset kinds, duplicate?, identical?, liveness, outcome)",
        "C17" => "(registered-pairs bucket, pair kind, native positions, number of registered denoms)",
        "C19" => "(registry size, page size, key-shape class)",
        "C20" => "(pair kind, amount class, lg r0 /16, lg r1 /16, lg S /16, probe or real)",
        _ => "",
    };
    format!(
        "runs are generated from splitmix64(base seed, property, run index); every delivered transaction and probe is judged by the property's oracle. A case counts when the clause precondition held; cases are distinct when their abstract tuple differs: {}",
        tuple
    )
}

pub fn cmd_replay(path: &str) -> i32 {
    let body = match std::fs::read_to_string(path) {
        Ok(b) => b,
        Err(e) => {
            eprintln!("harness error: {}: {}", path, e);
            return 2;
        }
    };
    let rf: ReplayFile = match serde_json::from_str(&body) {
        Ok(r) => r,
        Err(e) => {
            eprintln!("harness error: {}: {}", path, e);
            return 2;
        }
    };
    let vs = replay_events(&rf.world, &rf.events);
    let hit = vs
        .iter()
        .find(|v| v.prop == rf.property && v.clause == rf.clause && v.cause == rf.cause_class);
    match hit {
        Some(v) => {
            println!(
                "replay {}: reproduced {}/{}/{} at step {} (expected step {}): {}",
                path, v.prop, v.clause, v.cause, v.seq, rf.expect.step, v.detail
            );
            println!("VIOLATION property={} replay={}", rf.property, path);
            1
        }
        None => {
            println!(
                "replay {}: {}/{}/{} did not reproduce ({} other violations)",
                path,
                rf.property,
                rf.clause,
                rf.cause_class,
                vs.len()
            );
            0
        }
    }
}

/// print per-run digests for a range of indices (used by the determinism self-test)
pub fn cmd_digests(prop: &str, lo: u64, hi: u64, rest: &[String]) -> i32 {
    let base = base_seed();
    let profile = profile_for(prop);
    let threads = arg_val(rest, "--threads").unwrap_or(1).max(1) as usize;
    let next = Arc::new(AtomicU64::new(lo));
    let out: Arc<Mutex<Vec<(u64, u64, u64, usize)>>> = Arc::new(Mutex::new(vec![]));
    let mut hs = vec![];
    for _ in 0..threads {
        let next = next.clone();
        let out = out.clone();
        let profile = profile.clone();
        let prop = prop.to_string();
        hs.push(std::thread::spawn(move || {
            crate::sim::install_panic_hook();
            loop {
                let i = next.fetch_add(1, Ordering::SeqCst);
                if i >= hi {
                    break;
                }
                let r = one_run(&prop, &profile, base, i, false, 1);
                out.lock().unwrap().push((i, r.log_digest, r.shape_digest, r.cov.violations.len()));
            }
        }));
    }
    for h in hs {
        if h.join().is_err() {
            return 2;
        }
    }
    let mut v = out.lock().unwrap().clone();
    v.sort();
    for (i, a, b, c) in v {
        println!("{} {:016x} {:016x} {}", i, a, b, c);
    }
    0
}

pub fn cmd_selftest(what: &str, rest: &[String]) -> i32 {
    if what != "determinism" {
        eprintln!("unknown selftest");
        return 2;
    }
    let runs = arg_val(rest, "--runs").unwrap_or(120);
    let exe = std::env::current_exe().unwrap();
    let mut total = 0;
    for prop in PROPS.iter() {
        let mut outs = vec![];
        for threads in ["1", "4", "16"] {
            let o = std::process::Command::new(&exe)
                .args(["digests", prop, "0", &runs.to_string(), "--threads", threads])
                .output();
            match o {
                Ok(o) if o.status.success() => outs.push(String::from_utf8_lossy(&o.stdout).to_string()),
                _ => {
                    eprintln!("harness error: digests {} failed", prop);
                    return 2;
                }
            }
        }
        if outs[0] != outs[1] || outs[0] != outs[2] {
            println!("DIVERGENCE in {}: event-log digests differ between processes / worker counts", prop);
            for (a, b) in outs[0].lines().zip(outs[2].lines()) {
                if a != b {
                    println!("  {}  vs  {}", a, b);
                }
            }
            return 2;
        }
        total += outs[0].lines().count();
    }
    println!("determinism: {} runs x 3 processes (1, 4, 16 workers) agree on every event-log digest", total);
    0
}

pub fn cmd_show(prop: &str, index: u64) -> i32 {
    let base = base_seed();
    let profile = profile_for(prop);
    let seed = derive_seed(base, prop, index);
    let mut r = Runner::new(seed, profile);
    r.keep_log = true;
    r.run();
    println!("world: {}", serde_json::to_string(&r.sim.cfg).unwrap());
    for (e, l) in r.events.iter().zip(r.log.iter()) {
        println!("{}\n    -> {}", serde_json::to_string(e).unwrap(), l);
    }
    for v in &r.cov.violations {
        println!("VIOL {} {} {} @{}: {}", v.prop, v.clause, v.cause, v.seq, v.detail);
    }
    println!("txs: {:?}", r.cov.txs);
    println!("faults: {:?}", r.cov.faults);
    println!("reach: {:?}", r.cov.reach);
    println!("evals: {:?}", r.cov.evals);
    0
}
