//! Guard oracles: C10 (max_spread / belief_price) and C15 (slippage tolerance).
//! "Rejected by the guard" is decided semantically by a differential probe: the same
//! transaction fails with the guard parameter and succeeds without it in the same state.

use cosmwasm_std::Decimal;

use crate::bignat::{n, N};
use crate::cover::Cover;
use crate::ops::*;
use crate::sim::*;
use crate::step::*;

fn dec_atoms(d: &Decimal) -> N {
    dec_str_atoms(&d.to_string()).expect("Decimal string")
}

struct SwapObs {
    o: N,
    r: N,
    sp: N,
}

/// decimals-normalised offer, return and spread (to the larger of the two decimals)
fn normalise(offer: u128, ret: u128, spread: u128, od: u8, rd: u8) -> SwapObs {
    if od > rd {
        let f = N::pow10((od - rd) as u32);
        SwapObs {
            o: n(offer),
            r: &n(ret) * &f,
            sp: &n(spread) * &f,
        }
    } else {
        let f = N::pow10((rd - od) as u32);
        SwapObs {
            o: &n(offer) * &f,
            r: n(ret),
            sp: n(spread),
        }
    }
}

struct GuardedSwap {
    pair: usize,
    offer: AssetAmt,
    belief: Option<Decimal>,
    max_spread: Option<Decimal>,
}

fn guarded_swap(op: &Op) -> Option<GuardedSwap> {
    match op {
        Op::SwapExec {
            pair,
            offer,
            belief,
            max_spread,
            ..
        }
        | Op::SwapHook {
            pair,
            offer,
            belief,
            max_spread,
            ..
        } => Some(GuardedSwap {
            pair: *pair,
            offer: offer.clone(),
            belief: *belief,
            max_spread: *max_spread,
        }),
        _ => None,
    }
}

fn strip_swap_guard(op: &Op) -> Op {
    let mut o = op.clone();
    match &mut o {
        Op::SwapExec {
            belief, max_spread, ..
        }
        | Op::SwapHook {
            belief, max_spread, ..
        } => {
            *belief = None;
            *max_spread = None;
        }
        Op::Provide { slippage, .. } => *slippage = None,
        Op::Batch(ops) => {
            for x in ops.iter_mut() {
                *x = strip_swap_guard(x);
            }
        }
        _ => {}
    }
    o
}

fn offset_class(lhs: &N, rhs: &N, unit: &N) -> &'static str {
    // position of lhs relative to rhs in multiples of unit
    if lhs == rhs {
        "0"
    } else if lhs < rhs {
        if &(lhs + unit) >= rhs {
            "-1"
        } else {
            "<-1"
        }
    } else if &(rhs + unit) >= lhs {
        "+1"
    } else {
        ">+1"
    }
}

/// evaluate the C10 clauses for an observed (offer, return, spread) under the given guard
fn c10_eval(
    cov: &mut Cover,
    seq: u64,
    g: &GuardedSwap,
    od: u8,
    rd: u8,
    ret: u128,
    spread: u128,
    succeeded: bool,
    rejected_by_guard: bool,
) {
    let s = match &g.max_spread {
        Some(s) => dec_atoms(s),
        None => return,
    };
    let e18 = N::e18();
    let obs = normalise(g.offer.amount.u128(), ret, spread, od, rd);
    let dsign = if od > rd { "od>rd" } else if od < rd { "od<rd" } else { "od=rd" };
    let ddiff = (od as i32 - rd as i32).abs();
    match &g.belief {
        Some(p) => {
            let p = dec_atoms(p);
            if p.is_zero() {
                return;
            }
            // binding: O'/p > 1 and s < 1
            let o18 = &obs.o * &e18;
            let binding = o18 > p && s < e18;
            // success-bound: R' > (O'/p - 1)(1 - s - 1e-18)
            //   <=> (O'*1e18 - P) * (1e18 - S - 1) < R' * P * 1e18
            let rp = &(&obs.r * &p) * &e18;
            // not-rejected threshold: R'*P*1e18 >= O'*1e18*(1e18 - S)
            let thr = if s <= e18 { &o18 * &(&e18 - &s) } else { N::zero() };
            cov.case(
                "C10",
                format!(
                    "bp|{}|{}|{}|{}",
                    dsign,
                    ddiff,
                    offset_class(&rp, &thr, &o18),
                    if succeeded { "ok" } else if rejected_by_guard { "guard" } else { "other" }
                ),
            );
            if succeeded && binding {
                cov.eval("C10", "a");
                let factor = (&e18 - &s).sat_sub(&N::one());
                let lhs = &(&o18 - &p) * &factor;
                if lhs >= rp {
                    cov.violate(
                        "C10",
                        "a",
                        "belief-bound-not-honoured",
                        seq,
                        format!(
                            "swap succeeded: O'={} R'={} p={} s={} (atoms): return not above (O'/p-1)(1-s-1e-18)",
                            obs.o, obs.r, p, s
                        ),
                    );
                }
            }
            if rejected_by_guard && s <= e18 {
                cov.eval("C10", "b");
                if rp >= thr {
                    cov.violate(
                        "C10",
                        "b",
                        "belief-guard-rejected-good-trade",
                        seq,
                        format!(
                            "guard rejected although R'={} >= (O'/p)(1-s) with O'={} p={} s={}",
                            obs.r, obs.o, p, s
                        ),
                    );
                }
            }
        }
        None => {
            let tot = &obs.r + &obs.sp;
            if tot.is_zero() {
                return;
            }
            // ratio = sp'/(R'+sp')
            let lhs = &obs.sp * &e18; // compare with S*(tot)
            let at_s = &s * &tot;
            cov.case(
                "C10",
                format!(
                    "sp|{}|{}|{}|{}",
                    dsign,
                    ddiff,
                    offset_class(&lhs, &at_s, &tot),
                    if succeeded { "ok" } else if rejected_by_guard { "guard" } else { "other" }
                ),
            );
            if succeeded {
                cov.eval("C10", "c");
                // sp'/(R'+sp') < s + 1e-18  <=>  sp'*1e18 < (S+1)*tot
                if lhs >= &(&s + &N::one()) * &tot {
                    cov.violate(
                        "C10",
                        "c",
                        "spread-bound-not-honoured",
                        seq,
                        format!("swap succeeded with spread'={} return'={} s={}", obs.sp, obs.r, s),
                    );
                }
            }
            if rejected_by_guard {
                cov.eval("C10", "d");
                if lhs <= at_s {
                    cov.violate(
                        "C10",
                        "d",
                        "spread-guard-rejected-good-trade",
                        seq,
                        format!(
                            "guard rejected although spread'/(return'+spread') = {}/{} <= s={}",
                            obs.sp, tot, s
                        ),
                    );
                }
            }
        }
    }
}

fn swap_attrs(sim_model: &Model, out: &Outcome, pair: usize) -> Option<(u128, u128)> {
    let p = sim_model.std_pair(pair)?;
    let attrs = wasm_attrs(out.responses(), &p.addr, "swap");
    if attrs.len() != 1 {
        return None;
    }
    Some((
        attr_u128(&attrs[0], "return_amount")?,
        attr_u128(&attrs[0], "spread_amount")?,
    ))
}

fn decimals_for(model: &Model, pre: &PreObs, g: &GuardedSwap) -> Option<(u8, u8)> {
    let p = model.std_pair(g.pair)?;
    let dec = pre.pair_decimals.get(&g.pair)?;
    let ko = model.asset_key(&g.offer.asset)?;
    let oi = p.index_of_key(&ko)?;
    Some((dec[oi], dec[1 - oi]))
}

/// success-side clauses (called for every successful step)
pub fn run(ctx: &Ctx, cov: &mut Cover) {
    if !ctx.outcome.is_ok() {
        return;
    }
    if let Some(g) = guarded_swap(&ctx.ev.op) {
        if g.max_spread.is_some() {
            if let (Some((od, rd)), Some((ret, sp))) = (
                decimals_for(ctx.model, ctx.pre, &g),
                swap_attrs(ctx.model, ctx.outcome, g.pair),
            ) {
                c10_eval(cov, ctx.ev.seq, &g, od, rd, ret, sp, true, false);
            } else {
                cov.reach("C10.observation_missing");
            }
        }
    }
    if let Op::Provide {
        pair,
        assets,
        slippage: Some(t),
        ..
    } = &ctx.ev.op
    {
        if let Some(p) = ctx.model.std_pair(*pair) {
            let r = [ctx.view.pre(&p.keys[0], &p.addr), ctx.view.pre(&p.keys[1], &p.addr)];
            if let Some(d) = deposits_in_pair_order(ctx.model, p, assets) {
                c15_eval(cov, ctx.ev.seq, p.kind(), t, d, r, true, false);
            }
        }
    }
}

pub fn deposits_in_pair_order(model: &Model, p: &PairModel, assets: &[AssetAmt; 2]) -> Option<[u128; 2]> {
    let mut d = [None, None];
    for a in assets.iter() {
        let k = model.asset_key(&a.asset)?;
        let i = p.index_of_key(&k)?;
        if d[i].is_none() {
            d[i] = Some(a.amount.u128());
        }
    }
    Some([d[0]?, d[1]?])
}

fn c15_eval(
    cov: &mut Cover,
    seq: u64,
    kind: &str,
    t: &Decimal,
    d: [u128; 2],
    r: [u128; 2],
    succeeded: bool,
    rejected_by_guard: bool,
) {
    let t = dec_atoms(t);
    let e18 = N::e18();
    if t > e18 {
        cov.eval("C15", "c");
        cov.case("C15", format!("{}|t>1|{}", kind, if succeeded { "ok" } else { "fail" }));
        if succeeded {
            cov.violate(
                "C15",
                "c",
                "tolerance-above-one-accepted",
                seq,
                format!("provision with tolerance {} atoms succeeded", t),
            );
        }
        return;
    }
    // the bounds are evaluated by cross-multiplication, which stays meaningful when one reserve
    // is zero (a one-sided pool: one ratio is infinite, the other zero); with both reserves or a
    // deposit at zero the ratios of the statement denote nothing
    if d[0] == 0 || d[1] == 0 || (r[0] == 0 && r[1] == 0) {
        return;
    }
    let omt = &e18 - &t;
    // direction i: (d_i/d_j)(1-t) vs r_i/r_j
    // lhs_i = d_i*(1e18-T)*r_j ; rhs_i = r_i*d_j*1e18 ; unit_i = d_j*r_j (one atom of the ratio)
    let mut classes = vec![];
    let mut both_strict_ok = true;
    let mut both_loose_ok = true;
    for i in 0..2 {
        let j = 1 - i;
        let lhs = &(&n(d[i]) * &omt) * &n(r[j]);
        let rhs = &(&n(r[i]) * &n(d[j])) * &e18;
        let unit = &n(d[j]) * &n(r[j]);
        classes.push(offset_class(&lhs, &rhs, &unit));
        // success bound: lhs < rhs + 2*unit
        if lhs >= &rhs + &(&unit + &unit) {
            both_loose_ok = false;
        }
        // never-rejected region: lhs <= rhs - unit
        if &lhs + &unit > rhs {
            both_strict_ok = false;
        }
    }
    cov.case(
        "C15",
        format!(
            "{}|{}|{}|{}",
            kind,
            classes[0],
            classes[1],
            if succeeded { "ok" } else if rejected_by_guard { "guard" } else { "other" }
        ),
    );
    if succeeded {
        cov.eval("C15", "a");
        if !both_loose_ok {
            cov.violate(
                "C15",
                "a",
                "slippage-bound-not-honoured",
                seq,
                format!("provision d=({},{}) r=({},{}) t={} succeeded", d[0], d[1], r[0], r[1], t),
            );
        }
    }
    if rejected_by_guard {
        cov.eval("C15", "b");
        if both_strict_ok {
            cov.violate(
                "C15",
                "b",
                "slippage-guard-rejected-good-provision",
                seq,
                format!("provision d=({},{}) r=({},{}) t={} rejected by the guard", d[0], d[1], r[0], r[1], t),
            );
        }
    }
}

/// failure-side clauses: the step failed and nothing was committed, so the chain is still in
/// the state the step executed in; run the same operation without its guard parameter.
/// `ev` is the (possibly simplified) event the oracles judge; `orig_op` is the operation that
/// was actually executed (e.g. the whole approve+provide batch): the probe re-executes exactly
/// that transaction with only the guard parameter removed.
pub fn differential(sim: &mut Sim, ev: &Event, orig_op: &Op, sender: &str, pre: &PreObs, cov: &mut Cover) {
    if let Some(g) = guarded_swap(&ev.op) {
        if g.max_spread.is_none() {
            return;
        }
        let bare = strip_swap_guard(orig_op);
        let (out, _delta, _trace) = sim.dry_run(sender, &bare, None);
        if !out.is_ok() {
            cov.reach("C10.failed_for_other_reason");
            return;
        }
        cov.reach("C10.rejected_by_guard");
        if let (Some((od, rd)), Some((ret, sp))) = (
            decimals_for(&sim.model, pre, &g),
            swap_attrs(&sim.model, &out, g.pair),
        ) {
            c10_eval(cov, ev.seq, &g, od, rd, ret, sp, false, true);
        }
        return;
    }
    if let Op::Provide {
        pair,
        assets,
        slippage: Some(t),
        ..
    } = &ev.op
    {
        let p = match sim.model.std_pair(*pair) {
            Some(p) => p.clone(),
            None => return,
        };
        let t_atoms = dec_atoms(t);
        if t_atoms > N::e18() {
            // clause c is about the call failing at all; it did
            let (r0, r1, _) = sim.reserves_pre(&p);
            if let Some(d) = deposits_in_pair_order(&sim.model, &p, assets) {
                c15_eval(cov, ev.seq, p.kind(), t, d, [r0, r1], false, false);
            }
            return;
        }
        let bare = strip_swap_guard(orig_op);
        let (out, _delta, _trace) = sim.dry_run(sender, &bare, None);
        if !out.is_ok() {
            cov.reach("C15.failed_for_other_reason");
            return;
        }
        cov.reach("C15.rejected_by_guard");
        let (r0, r1, _) = sim.reserves_pre(&p);
        if let Some(d) = deposits_in_pair_order(&sim.model, &p, assets) {
            c15_eval(cov, ev.seq, p.kind(), t, d, [r0, r1], false, true);
        }
    }
}
