//! Pair-level oracles: C01..C07, C09, C20 and the generic "a failed step changes nothing".
//! All arithmetic in BigNat, all bounds by cross-multiplication exactly as the properties
//! state them.

use std::collections::BTreeMap;

use crate::bignat::{n, z, N, Z};
use crate::cover::{lg, Cover};
use crate::ops::*;
use crate::sim::*;
use crate::step::*;

fn commission_class(c: &N) -> &'static str {
    let e18 = N::e18();
    if c.is_zero() {
        "0"
    } else if *c == e18 {
        "1"
    } else if *c < n(1_000_000_000_000) {
        "tiny"
    } else if *c <= n(10_000_000_000_000_000) {
        "default"
    } else if *c < n(900_000_000_000_000_000) {
        "mid"
    } else {
        "near1"
    }
}

/// facts about the single swap a transaction performed on a pair, from reserve deltas
pub struct SwapFacts {
    pub offer_side: usize,
    pub x: u128,
    /// ask reserve the trade was priced against (including coins attached with the swap)
    pub y: u128,
    pub a: u128,
    pub paid: u128,
    pub window: &'static str,
}

/// H1/H2 cause-class predicate: the exact quotient g = y*a/(x+a) is not an integer and lies
/// less than 10^-18 below one, so the formula's 18-digit truncation of the subtracted
/// quotient rounds the gross output up to ceil(g).
pub fn ceil18_window(x: u128, y: u128, a: u128) -> (bool, N) {
    let xa = &n(x) + &n(a);
    if xa.is_zero() {
        return (false, N::zero());
    }
    let (q, rem) = (&n(y) * &n(a)).divrem(&xa);
    if rem.is_zero() {
        return (false, q);
    }
    let gap = &xa - &rem; // (ceil(g) - g) * (x+a)
    let in_window = &gap * &N::e18() < xa;
    (in_window, &q + &N::one())
}

fn extra_funds_of(ev: &Event, denom_key: &str) -> u128 {
    let funds = match &ev.op {
        Op::SwapExec { funds, .. } => funds,
        _ => return 0,
    };
    funds
        .iter()
        .filter(|f| crate::ledger::native_key(&f.denom) == denom_key)
        .map(|f| f.amount.u128())
        .sum()
}

/// Several swaps on one pair inside one transaction (a route that re-uses a pair): replay them
/// in order from the pair's reported (offer asset, offer amount, return amount) against the
/// pre-state reserves. True iff the sequence reproduces the observed post-state reserves, at
/// least one swap pays more than y*a/(x+a), and every such swap lies in the ceil18 window with
/// a payout of at most ceil(g) — i.e. the step is fully explained by the known finding.
pub fn multi_swap_in_window(ctx: &Ctx, p: &PairModel) -> bool {
    let attrs = wasm_attrs(ctx.outcome.responses(), &p.addr, "swap");
    let swaps = ok_dispatches(ctx.trace, &p.addr, &SWAP_KINDS).len();
    let others = ok_dispatches(ctx.trace, &p.addr, &PROVIDE_KINDS).len()
        + ok_dispatches(ctx.trace, &p.addr, &WITHDRAW_KINDS).len();
    if swaps < 2 || attrs.len() != swaps || others != 0 || matches!(ctx.ev.op, Op::Batch(_)) {
        return false;
    }
    let mut r = [ctx.view.pre(&p.keys[0], &p.addr), ctx.view.pre(&p.keys[1], &p.addr)];
    let mut any_over = false;
    for m in &attrs {
        let offered = match m.get("offer_asset") {
            Some(s) => s.clone(),
            None => return false,
        };
        let side = match (0..2).find(|i| p.infos[*i].to_string() == offered) {
            Some(i) => i,
            None => return false,
        };
        let (a, paid) = match (attr_u128(m, "offer_amount"), attr_u128(m, "return_amount")) {
            (Some(a), Some(b)) => (a, b),
            _ => return false,
        };
        let (x, y) = (r[side], r[1 - side]);
        let over = &n(paid) * &(&n(x) + &n(a)) > &n(y) * &n(a);
        if over {
            let (w, ceil_g) = ceil18_window(x, y, a);
            if !w || n(paid) > ceil_g {
                return false;
            }
            any_over = true;
        }
        r[side] = match r[side].checked_add(a) {
            Some(v) => v,
            None => return false,
        };
        r[1 - side] = match r[1 - side].checked_sub(paid) {
            Some(v) => v,
            None => return false,
        };
    }
    let post = [ctx.view.post(&p.keys[0], &p.addr), ctx.view.post(&p.keys[1], &p.addr)];
    // a receiver that is the pair itself returns the payout to the pool: accept post >= replay
    any_over && post[0] >= r[0] && post[1] >= r[1] && (post[0] == r[0] || post[1] == r[1])
}

pub fn swap_facts(ctx: &Ctx, p: &PairModel) -> Option<SwapFacts> {
    let swaps = ok_dispatches(ctx.trace, &p.addr, &SWAP_KINDS).len();
    let others = ok_dispatches(ctx.trace, &p.addr, &PROVIDE_KINDS).len()
        + ok_dispatches(ctx.trace, &p.addr, &WITHDRAW_KINDS).len();
    if swaps != 1 || others != 0 || matches!(ctx.ev.op, Op::Batch(_)) {
        return None;
    }
    let pre = [ctx.view.pre(&p.keys[0], &p.addr), ctx.view.pre(&p.keys[1], &p.addr)];
    let post = [ctx.view.post(&p.keys[0], &p.addr), ctx.view.post(&p.keys[1], &p.addr)];
    // offer side: the reserve that rose; ask side: the other one
    let offer_side = if post[0] > pre[0] && post[1] <= pre[1] {
        0
    } else if post[1] > pre[1] && post[0] <= pre[0] {
        1
    } else {
        return None;
    };
    let ask = 1 - offer_side;
    // coins of the ask denom attached to a direct swap are a donation preceding the swap
    let e = extra_funds_of(ctx.ev, &p.keys[ask]);
    let y = pre[ask].checked_add(e)?;
    let x = pre[offer_side];
    let a = post[offer_side] - pre[offer_side];
    let paid = y.checked_sub(post[ask])?;
    let (w, ceil_g) = ceil18_window(x, y, a);
    let window = if w {
        if n(paid) <= ceil_g {
            "ceil18-window"
        } else {
            "beyond-window"
        }
    } else {
        "none"
    };
    Some(SwapFacts {
        offer_side,
        x,
        y,
        a,
        paid,
        window,
    })
}

pub fn run(ctx: &Ctx, cov: &mut Cover) {
    generic_failure(ctx, cov);
    c02_case(ctx, cov);
    c03_share_value(ctx, cov);
    c05g_locked_unit(ctx, cov);
    c07_third_parties(ctx, cov);
    if ctx.outcome.is_ok() {
        c01_swaps(ctx, cov);
        match &ctx.ev.op {
            Op::SwapExec { .. } | Op::SwapHook { .. } => {
                c02_settlement(ctx, cov);
                c06_exec(ctx, cov);
            }
            Op::Withdraw { .. } => c04_withdraw(ctx, cov),
            Op::Provide { .. } => c05_provide(ctx, cov),
            _ => {}
        }
        c09_declared(ctx, cov);
    }
    c20_withdrawable(ctx, cov);
}

/// A failed transaction commits nothing. (The chain stub guarantees atomicity; a contract
/// could only break this by swallowing a sub-message error, which would show as a success.)
fn generic_failure(ctx: &Ctx, cov: &mut Cover) {
    if !ctx.outcome.failed() {
        return;
    }
    let props: &[(&str, &str)] = match &ctx.ev.op {
        Op::SwapExec { .. } | Op::SwapHook { .. } => &[("C02", "f"), ("C09", "b")],
        Op::Provide { .. } => &[("C09", "b")],
        Op::RouteExec { .. } | Op::RouteHook { .. } => &[("C11", "b"), ("C13", "e")],
        Op::Raw { .. }
        | Op::CreatePair { .. }
        | Op::AddNativeDecimals { .. }
        | Op::UpdateConfig { .. }
        | Op::MigratePair { .. } => &[("C14", "a")],
        _ => &[],
    };
    for (p, c) in props {
        cov.eval(p, c);
        if !ctx.view.delta.is_empty() {
            cov.violate(
                p,
                c,
                "failed-step-changed-state",
                ctx.ev.seq,
                format!(
                    "{} failed ({}) but committed {} writes",
                    ctx.ev.op.kind(),
                    ctx.outcome.err_text(),
                    ctx.view.delta.raw_writes
                ),
            );
        }
    }
}

fn pair_dirty(ctx: &Ctx, p: &PairModel) -> bool {
    let lpk = p.lp_key();
    ctx.view
        .delta
        .bal
        .iter()
        .any(|c| c.account == p.addr && (c.asset == p.keys[0] || c.asset == p.keys[1]))
        || ctx.view.delta.supply.iter().any(|s| s.0 == lpk)
}

/// C03: r0*r1/S^2 never decreases while the supply is positive
fn c03_share_value(ctx: &Ctx, cov: &mut Cover) {
    for p in ctx.model.pairs.iter().filter(|p| p.standard) {
        if !pair_dirty(ctx, p) {
            continue;
        }
        let lpk = p.lp_key();
        let (r0, r1, s) = (
            ctx.view.pre(&p.keys[0], &p.addr),
            ctx.view.pre(&p.keys[1], &p.addr),
            ctx.view.pre_supply(&lpk),
        );
        let (q0, q1, t) = (
            ctx.view.post(&p.keys[0], &p.addr),
            ctx.view.post(&p.keys[1], &p.addr),
            ctx.view.post_supply(&lpk),
        );
        if s == 0 || t == 0 {
            continue;
        }
        cov.eval("C03", "a");
        cov.case(
            "C03",
            format!(
                "{}|{}|{}|{}|r0^{}|r1^{}|S^{}",
                p.kind(),
                ctx.ev.op.kind(),
                ctx.outcome.tag(),
                if ctx.ev.fail_at.is_some() { "F4" } else { "-" },
                lg(r0) / 16,
                lg(r1) / 16,
                lg(s) / 16
            ),
        );
        let lhs = &(&n(q0) * &n(q1)) * &(&n(s) * &n(s));
        let rhs = &(&n(r0) * &n(r1)) * &(&n(t) * &n(t));
        if lhs < rhs {
            let cause = match swap_facts(ctx, p) {
                Some(f) if f.window == "ceil18-window" => "ceil18-window",
                None if multi_swap_in_window(ctx, p) => "ceil18-window",
                _ => "share-value-decreased",
            };
            cov.violate(
                "C03",
                "a",
                cause,
                ctx.ev.seq,
                format!(
                    "pair {} ({}): (r0,r1,S)=({},{},{}) -> ({},{},{}) by {}",
                    p.addr,
                    p.kind(),
                    r0,
                    r1,
                    s,
                    q0,
                    q1,
                    t,
                    ctx.ev.op.kind()
                ),
            );
        }
    }
}

/// C05.g: the unit minted to the LP token's own address never leaves it
fn c05g_locked_unit(ctx: &Ctx, cov: &mut Cover) {
    for c in &ctx.view.delta.bal {
        if let Some(addr) = c.asset.strip_prefix("c:") {
            if c.account == addr && ctx.model.pairs.iter().any(|p| p.lp == addr) {
                cov.eval("C05", "g");
                if c.new < c.old {
                    cov.violate(
                        "C05",
                        "g",
                        "locked-unit-moved",
                        ctx.ev.seq,
                        format!("LP {} own balance {} -> {}", addr, c.old, c.new),
                    );
                }
            }
        }
    }
}

/// C01: product non-decreasing, paid-out reserve positive, payout <= y*a/(x+a)
fn c01_swaps(ctx: &Ctx, cov: &mut Cover) {
    for p in ctx.model.pairs.iter().filter(|p| p.standard) {
        let swaps = ok_dispatches(ctx.trace, &p.addr, &SWAP_KINDS);
        if swaps.is_empty() {
            continue;
        }
        let others = ok_dispatches(ctx.trace, &p.addr, &PROVIDE_KINDS).len()
            + ok_dispatches(ctx.trace, &p.addr, &WITHDRAW_KINDS).len();
        if others > 0 {
            continue;
        }
        let pre = [ctx.view.pre(&p.keys[0], &p.addr), ctx.view.pre(&p.keys[1], &p.addr)];
        let post = [ctx.view.post(&p.keys[0], &p.addr), ctx.view.post(&p.keys[1], &p.addr)];
        let path = match &ctx.ev.op {
            Op::SwapExec { .. } => "exec",
            Op::SwapHook { .. } => "hook",
            Op::RouteExec { .. } | Op::RouteHook { .. } => "route",
            _ => "other",
        };
        let facts = swap_facts(ctx, p);
        let window = facts.as_ref().map(|f| f.window).unwrap_or("n/a");
        cov.eval("C01", "a");
        cov.case(
            "C01",
            format!(
                "{}|{}|x^{}|y^{}|c={}|w={}|n{}",
                p.kind(),
                path,
                lg(pre[0]) / 8,
                lg(pre[1]) / 8,
                commission_class(&p.commission),
                window,
                swaps.len()
            ),
        );
        let cause = if window == "ceil18-window" {
            cov.reach("C01.ceil18_window_hit");
            "ceil18-window"
        } else if facts.is_none() && multi_swap_in_window(ctx, p) {
            cov.reach("C01.ceil18_window_hit_multi_swap");
            "ceil18-window"
        } else {
            "overpaid"
        };
        if &n(post[0]) * &n(post[1]) < &n(pre[0]) * &n(pre[1]) {
            cov.violate(
                "C01",
                "a",
                cause,
                ctx.ev.seq,
                format!(
                    "pair {} ({}) reserves ({},{}) -> ({},{}): product decreased",
                    p.addr,
                    p.kind(),
                    pre[0],
                    pre[1],
                    post[0],
                    post[1]
                ),
            );
        }
        // positivity of the reserve paid out
        for i in 0..2 {
            if post[i] < pre[i] {
                cov.eval("C01", "b");
                if post[i] == 0 {
                    cov.violate(
                        "C01",
                        "b",
                        cause,
                        ctx.ev.seq,
                        format!(
                            "pair {} reserve of {} emptied: ({},{}) -> ({},{})",
                            p.addr, p.keys[i], pre[0], pre[1], post[0], post[1]
                        ),
                    );
                }
            }
        }
        if let Some(f) = &facts {
            cov.eval("C01", "c");
            if f.paid == 0 {
                cov.reach("C01.zero_return");
            }
            if f.a == 1 {
                cov.reach("C01.offer_one");
            }
            // paid * (x + a) <= y * a
            if &n(f.paid) * &(&n(f.x) + &n(f.a)) > &n(f.y) * &n(f.a) {
                cov.violate(
                    "C01",
                    "c",
                    cause,
                    ctx.ev.seq,
                    format!(
                        "pair {} x={} y={} offer={} paid={} > y*a/(x+a)",
                        p.addr, f.x, f.y, f.a, f.paid
                    ),
                );
            }
        }
    }
}

fn swap_parts(ctx: &Ctx) -> Option<(usize, AssetAmt, Option<AddrRef>, Vec<Fund>, Option<(Via, u128)>)> {
    match &ctx.ev.op {
        Op::SwapExec {
            pair,
            offer,
            funds,
            to,
            ..
        } => Some((*pair, offer.clone(), to.clone(), funds.clone(), None)),
        Op::SwapHook {
            pair,
            via,
            sent,
            offer,
            to,
            ..
        } => Some((
            *pair,
            offer.clone(),
            to.clone(),
            vec![],
            Some((via.clone(), sent.u128())),
        )),
        _ => None,
    }
}

/// who pays the offer of a direct swap: the sender, or the account whose allowance is spent
fn payer_of(ctx: &Ctx) -> String {
    if let Op::SwapHook { from: Some(o), .. } = &ctx.ev.op {
        if let Some(a) = ctx.model.addr(o) {
            return a;
        }
    }
    ctx.sender.to_string()
}

type DeltaMap = BTreeMap<(String, String), Z>;

fn add(m: &mut DeltaMap, asset: &str, account: &str, v: Z) {
    *m.entry((asset.to_string(), account.to_string())).or_insert_with(Z::zero) += v;
}

fn actual_delta_map(ctx: &Ctx) -> Option<DeltaMap> {
    let mut m = DeltaMap::new();
    for c in &ctx.view.delta.bal {
        add(&mut m, &c.asset, &c.account, Z::diff(c.new, c.old));
    }
    Some(m)
}

fn diff_maps(exp: &DeltaMap, act: &DeltaMap) -> Vec<String> {
    let mut out = vec![];
    let keys: std::collections::BTreeSet<_> = exp.keys().chain(act.keys()).collect();
    for k in keys {
        let e = exp.get(k).cloned().unwrap_or_else(Z::zero);
        let a = act.get(k).cloned().unwrap_or_else(Z::zero);
        if e != a {
            out.push(format!("{}@{}: expected {:+} actual {:+}", k.0, k.1, e, a));
        }
    }
    out
}

/// the enumerated message-shape cell of a direct swap (counted for every outcome)
fn c02_case(ctx: &Ctx, cov: &mut Cover) {
    let (pi, offer, to, funds, hook) = match swap_parts(ctx) {
        Some(x) => x,
        None => return,
    };
    let p = match ctx.model.std_pair(pi) {
        Some(p) => p,
        None => return,
    };
    let ko = ctx.model.asset_key(&offer.asset).unwrap_or_default();
    let v = offer.amount.u128();
    let named = match p.index_of_key(&ko) {
        Some(_) if matches!(offer.asset, AssetRef::Native(_)) => "pair-native",
        Some(_) => "pair-cw20",
        None if matches!(offer.asset, AssetRef::Native(_)) => "foreign-native",
        None => "foreign-cw20",
    };
    let rel = |x: u128| if x == v { "eq" } else if x == 0 { "zero" } else if x < v { "less" } else { "more" };
    let delivered = match &hook {
        None => {
            let att: u128 = funds
                .iter()
                .filter(|f| crate::ledger::native_key(&f.denom) == ko)
                .map(|f| f.amount.u128())
                .sum();
            let extra = funds.iter().filter(|f| crate::ledger::native_key(&f.denom) != ko).count();
            format!("exec|att-{}|extra{}", rel(att), extra.min(2))
        }
        Some((Via::Rogue, sent)) => format!("hook-rogue|sent-{}", rel(*sent)),
        Some((Via::Cw20(a), sent)) => {
            let kv = ctx.model.asset_key(a).unwrap_or_default();
            let cls = if kv == ko {
                "same"
            } else if kv == p.lp_key() {
                "lp-token"
            } else if p.index_of_key(&kv).is_some() {
                "other-pair-asset"
            } else {
                "foreign"
            };
            format!(
                "hook-{}{}|sent-{}",
                cls,
                if matches!(&ctx.ev.op, Op::SwapHook { from: Some(_), .. }) { "-sendfrom" } else { "" },
                rel(*sent)
            )
        }
    };
    let to_class = match &to {
        None => "none",
        Some(AddrRef::Actor(a)) if a == ctx.sender => "self",
        Some(AddrRef::Actor(_)) => "actor",
        Some(AddrRef::Raw(_)) => "fresh",
        Some(_) => "contract",
    };
    cov.case(
        "C02",
        format!("{}|{}|{}|to-{}|{}", p.kind(), named, delivered, to_class, ctx.outcome.tag()),
    );
}

/// C02: settlement moves exactly the declared asset and amounts
fn c02_settlement(ctx: &Ctx, cov: &mut Cover) {
    let (pi, offer, to, funds, hook) = match swap_parts(ctx) {
        Some(x) => x,
        None => return,
    };
    let p = match ctx.model.std_pair(pi) {
        Some(p) => p,
        None => return,
    };
    let ko = match ctx.model.asset_key(&offer.asset) {
        Some(k) => k,
        None => return,
    };
    let v = offer.amount.u128();
    let oi = match p.index_of_key(&ko) {
        Some(i) => i,
        None => {
            cov.eval("C02", "a");
            cov.violate(
                "C02",
                "a",
                "foreign-asset-accepted",
                ctx.ev.seq,
                format!("swap naming {} succeeded on pair {}", ko, p.addr),
            );
            return;
        }
    };
    let ka = p.keys[1 - oi].clone();
    let receiver = match &to {
        Some(r) => ctx.model.addr(r).unwrap_or_else(|| ctx.sender.to_string()),
        None => ctx.sender.to_string(),
    };
    // observed return: reported attribute when present, else the pair's ask-side outflow
    let attrs = wasm_attrs(ctx.outcome.responses(), &p.addr, "swap");
    let e_ask: u128 = funds
        .iter()
        .filter(|f| crate::ledger::native_key(&f.denom) == ka)
        .map(|f| f.amount.u128())
        .sum();
    let outflow = ctx.view.pre(&ka, &p.addr).saturating_add(e_ask).checked_sub(ctx.view.post(&ka, &p.addr));
    let reported = attrs.first().and_then(|m| attr_u128(m, "return_amount"));
    let nret = match (reported, outflow) {
        (Some(r), _) => r,
        (None, Some(o)) => o,
        _ => return,
    };
    // a) reserve(o) rose by exactly v ; b) delivered by the sender in this transaction
    cov.eval("C02", "a");
    let rise = Z::diff(ctx.view.post(&ko, &p.addr), ctx.view.pre(&ko, &p.addr));
    if rise != z(v) {
        cov.violate(
            "C02",
            "a",
            "offer-not-credited-to-reserve",
            ctx.ev.seq,
            format!(
                "pair {} priced an offer of {} {} but that reserve changed by {}",
                p.addr, v, ko, rise
            ),
        );
    }
    let payer = payer_of(ctx);
    if payer != ctx.sender {
        cov.reach("C02.allowance_based_swap_succeeded");
    }
    if payer != p.addr {
        cov.eval("C02", "b");
        let fall = Z::diff(ctx.view.pre(&ko, &payer), ctx.view.post(&ko, &payer));
        let expect = z(v) - if receiver == payer && ka == ko { z(nret) } else { Z::zero() };
        if fall != expect {
            cov.violate(
                "C02",
                "b",
                "offer-not-delivered-by-sender",
                ctx.ev.seq,
                format!(
                    "payer {} balance of {} fell by {} but the trade was priced as offering {}",
                    payer, ko, fall, v
                ),
            );
        }
    }
    // c) ask reserve fell by exactly the reported return
    if let (Some(r), Some(o), true) = (reported, outflow, receiver != p.addr) {
        cov.eval("C02", "c");
        if r != o {
            cov.violate(
                "C02",
                "c",
                "ask-reserve-vs-reported",
                ctx.ev.seq,
                format!("reported return {} but reserve of {} fell by {}", r, ka, o),
            );
        }
    }
    // d/e) full expected delta map
    let mut exp = DeltaMap::new();
    add(&mut exp, &ko, &payer, -z(v));
    add(&mut exp, &ko, &p.addr, z(v));
    add(&mut exp, &ka, &p.addr, -z(nret));
    add(&mut exp, &ka, &receiver, z(nret));
    for f in &funds {
        let k = crate::ledger::native_key(&f.denom);
        if k != ko {
            add(&mut exp, &k, ctx.sender, -z(f.amount.u128()));
            add(&mut exp, &k, &p.addr, z(f.amount.u128()));
        }
    }
    exp.retain(|_, v| !v.is_zero());
    if let Some(act) = actual_delta_map(ctx) {
        cov.eval("C02", "d");
        cov.eval("C02", "e");
        let d = diff_maps(&exp, &act);
        if !d.is_empty() {
            let recv_bad = d.iter().any(|s| s.starts_with(&format!("{}@{}", ka, receiver)));
            cov.violate(
                "C02",
                if recv_bad { "d" } else { "e" },
                "settlement-mismatch",
                ctx.ev.seq,
                format!("swap on {}: {}", p.addr, d.join("; ")),
            );
        }
    }
}

/// the C06 bounds on one (x, y, a, c) -> (n, spread, commission)
pub fn c06_check(
    cov: &mut Cover,
    seq: u64,
    source: &str,
    x: u128,
    y: u128,
    a: u128,
    c: &N,
    ret: u128,
    spread: u128,
    commission: u128,
) {
    if x == 0 {
        return;
    }
    let e18 = N::e18();
    if *c > e18 {
        return;
    }
    let one_minus_c = &e18 - c;
    let xa = &n(x) + &n(a);
    // g(1-c) = y*a*(1e18-C) / ((x+a)*1e18)
    let num = &(&n(y) * &n(a)) * &one_minus_c;
    let den = &xa * &e18;
    let rem_class = |v: &N, d: &N| -> &'static str {
        let r = v.rem(d);
        if r.is_zero() {
            "0"
        } else if r == N::one() {
            "1"
        } else if &r + &N::one() == *d {
            "d-1"
        } else {
            "*"
        }
    };
    cov.case(
        "C06",
        format!(
            "{}|x^{}|y^{}|a^{}|c={}|r1={}|r2={}",
            source,
            lg(x) / 8,
            lg(y) / 8,
            lg(a) / 8,
            commission_class(c),
            rem_class(&(&(&n(x) * &n(y)) * &e18), &xa),
            rem_class(&(&(&n(y) * &n(a)) * &e18), &n(x)),
        ),
    );
    cov.eval("C06", "a");
    // lower: n > g(1-c) - 1  <=>  (n+1)*den > num
    if &(&n(ret) + &N::one()) * &den <= num {
        cov.violate(
            "C06",
            "a",
            "return-too-low",
            seq,
            format!("{}: x={} y={} a={} c={} n={}", source, x, y, a, c, ret),
        );
    }
    cov.eval("C06", "b");
    // upper: n < g(1-c) + 1  <=>  (n-1)*den < num   (trivial for n = 0)
    if ret >= 1 && &n(ret - 1) * &den >= num {
        cov.violate(
            "C06",
            "b",
            "return-too-high",
            seq,
            format!("{}: x={} y={} a={} c={} n={}", source, x, y, a, c, ret),
        );
    }
    cov.eval("C06", "c");
    let gross = &n(ret) + &n(commission);
    if (c * &gross).div_floor(&e18) != n(commission) {
        cov.violate(
            "C06",
            "c",
            "commission-mismatch",
            seq,
            format!(
                "{}: x={} y={} a={} c={} n={} commission={}",
                source, x, y, a, c, ret, commission
            ),
        );
    }
    cov.eval("C06", "d");
    if &gross + &n(spread) != (&n(a) * &n(y)).div_floor(&n(x)) {
        cov.violate(
            "C06",
            "d",
            "sum-mismatch",
            seq,
            format!(
                "{}: x={} y={} a={} n={} commission={} spread={}",
                source, x, y, a, ret, commission, spread
            ),
        );
    }
}

/// C06 on the reported values of an executed direct swap
fn c06_exec(ctx: &Ctx, cov: &mut Cover) {
    let (pi, offer, _to, funds, _hook) = match swap_parts(ctx) {
        Some(x) => x,
        None => return,
    };
    let p = match ctx.model.std_pair(pi) {
        Some(p) => p,
        None => return,
    };
    let ko = match ctx.model.asset_key(&offer.asset) {
        Some(k) => k,
        None => return,
    };
    let oi = match p.index_of_key(&ko) {
        Some(i) => i,
        None => return,
    };
    let ka = &p.keys[1 - oi];
    let attrs = wasm_attrs(ctx.outcome.responses(), &p.addr, "swap");
    let m = match attrs.first() {
        Some(m) if attrs.len() == 1 => m,
        _ => return,
    };
    let (ret, sp, cm) = match (
        attr_u128(m, "return_amount"),
        attr_u128(m, "spread_amount"),
        attr_u128(m, "commission_amount"),
    ) {
        (Some(a), Some(b), Some(c)) => (a, b, c),
        _ => {
            cov.reach("C06.attribute_missing");
            return;
        }
    };
    let e_ask: u128 = funds
        .iter()
        .filter(|f| crate::ledger::native_key(&f.denom) == *ka)
        .map(|f| f.amount.u128())
        .sum();
    // the pool the offer was priced against: pre reserves (offer side net of the delivery)
    let x = ctx.view.pre(&ko, &p.addr);
    let y = ctx.view.pre(ka, &p.addr).saturating_add(e_ask);
    // only when the named offer is what was actually delivered (C02 judges the rest)
    let rise = Z::diff(ctx.view.post(&ko, &p.addr), x);
    if rise != z(offer.amount.u128()) {
        return;
    }
    c06_check(cov, ctx.ev.seq, "exec", x, y, offer.amount.u128(), &p.commission, ret, sp, cm);
}

/// C04: withdrawal pays the pro-rata share
fn c04_withdraw(ctx: &Ctx, cov: &mut Cover) {
    let (pi, a) = match &ctx.ev.op {
        Op::Withdraw { pair, amount } => (*pair, amount.u128()),
        _ => return,
    };
    let p = match ctx.model.std_pair(pi) {
        Some(p) => p,
        None => return,
    };
    let lpk = p.lp_key();
    let s = ctx.view.pre_supply(&lpk);
    if s == 0 || a == 0 {
        return;
    }
    let holder = ctx.sender;
    let r = [ctx.view.pre(&p.keys[0], &p.addr), ctx.view.pre(&p.keys[1], &p.addr)];
    let e18 = N::e18();
    let mut exp = DeltaMap::new();
    for i in 0..2 {
        let x_i = Z::diff(ctx.view.post(&p.keys[i], holder), ctx.view.pre(&p.keys[i], holder));
        if x_i.is_neg() {
            cov.violate(
                "C04",
                "a",
                "holder-lost",
                ctx.ev.seq,
                format!("holder balance of {} fell on withdrawal", p.keys[i]),
            );
            continue;
        }
        let x_i = x_i.to_u128().unwrap_or(u128::MAX);
        let res = (&n(r[i]) * &n(a)).rem(&n(s));
        cov.case(
            "C04",
            format!(
                "{}|r^{}|S^{}|a^{}|res={}",
                p.kind(),
                lg(r[i]) / 8,
                lg(s) / 8,
                lg(a) / 8,
                if res.is_zero() { "0" } else if res == N::one() { "1" } else if &res + &N::one() == n(s) { "S-1" } else { "*" }
            ),
        );
        cov.eval("C04", "a");
        if &n(x_i) * &n(s) > &n(r[i]) * &n(a) {
            cov.violate(
                "C04",
                "a",
                "overpaid",
                ctx.ev.seq,
                format!("pair {} r={} a={} S={} paid {}", p.addr, r[i], a, s, x_i),
            );
        }
        cov.eval("C04", "b");
        // x_i > r*a/S - r/1e18 - 1
        let lhs = &(&(&n(x_i) + &N::one()) * &n(s)) * &e18 + &n(r[i]) * &n(s);
        if lhs <= &(&n(r[i]) * &n(a)) * &e18 {
            cov.violate(
                "C04",
                "b",
                "underpaid",
                ctx.ev.seq,
                format!("pair {} r={} a={} S={} paid {}", p.addr, r[i], a, s, x_i),
            );
        }
        add(&mut exp, &p.keys[i], holder, z(x_i));
        add(&mut exp, &p.keys[i], &p.addr, -z(x_i));
    }
    cov.eval("C04", "c");
    let ds = Z::diff(s, ctx.view.post_supply(&lpk));
    let dh = Z::diff(ctx.view.pre(&lpk, holder), ctx.view.post(&lpk, holder));
    if ds != z(a) || dh != z(a) {
        cov.violate(
            "C04",
            "c",
            "burn-not-exact",
            ctx.ev.seq,
            format!("burn {}: supply fell by {}, holder LP fell by {}", a, ds, dh),
        );
    }
    add(&mut exp, &lpk, holder, -z(a));
    exp.retain(|_, v| !v.is_zero());
    if let Some(act) = actual_delta_map(ctx) {
        cov.eval("C04", "d");
        let d = diff_maps(&exp, &act);
        if !d.is_empty() {
            cov.violate(
                "C04",
                "d",
                "others-touched",
                ctx.ev.seq,
                format!("withdraw on {}: {}", p.addr, d.join("; ")),
            );
        }
    }
}

/// C05: provision mints a fair share and pulls exactly the declared deposits
fn c05_provide(ctx: &Ctx, cov: &mut Cover) {
    let (pi, assets, funds, receiver) = match &ctx.ev.op {
        Op::Provide {
            pair,
            assets,
            funds,
            receiver,
            ..
        } => (*pair, assets, funds, receiver),
        _ => return,
    };
    let p = match ctx.model.std_pair(pi) {
        Some(p) => p,
        None => return,
    };
    let lpk = p.lp_key();
    let s = ctx.view.pre_supply(&lpk);
    let r = [ctx.view.pre(&p.keys[0], &p.addr), ctx.view.pre(&p.keys[1], &p.addr)];
    // deposits in pair order
    let mut d = [None, None];
    for a in assets.iter() {
        if let Some(k) = ctx.model.asset_key(&a.asset) {
            if let Some(i) = p.index_of_key(&k) {
                if d[i].is_none() {
                    d[i] = Some(a.amount.u128());
                }
            }
        }
    }
    let (d0, d1) = match (d[0], d[1]) {
        (Some(a), Some(b)) => (a, b),
        _ => {
            cov.violate(
                "C05",
                "d",
                "wrong-assets-accepted",
                ctx.ev.seq,
                format!("provision naming assets outside pair {} succeeded", p.addr),
            );
            return;
        }
    };
    let dd = [d0, d1];
    let recv = match receiver {
        Some(x) => ctx.model.addr(x).unwrap_or_else(|| ctx.sender.to_string()),
        None => ctx.sender.to_string(),
    };
    let post_supply = ctx.view.post_supply(&lpk);
    let minted_total = Z::diff(post_supply, s);
    let m_recv = Z::diff(ctx.view.post(&lpk, &recv), ctx.view.pre(&lpk, &recv));
    let mut exp = DeltaMap::new();
    if s > 0 {
        let m = m_recv.clone();
        let which_min = if &n(d0) * &n(r[1]) <= &n(d1) * &n(r[0]) { 0 } else { 1 };
        cov.case(
            "C05",
            format!(
                "{}|later|min{}|d^{}^{}|r^{}^{}|S^{}",
                p.kind(),
                which_min,
                lg(d0) / 8,
                lg(d1) / 8,
                lg(r[0]) / 8,
                lg(r[1]) / 8,
                lg(s) / 8
            ),
        );
        cov.eval("C05", "c");
        if m < z(1) {
            cov.violate("C05", "c", "minted-nothing", ctx.ev.seq, format!("minted {}", m));
            return;
        }
        let mu = m.to_u128().unwrap_or(u128::MAX);
        cov.eval("C05", "a");
        for i in 0..2 {
            if &n(mu) * &n(r[i]) > &n(dd[i]) * &n(s) {
                cov.violate(
                    "C05",
                    "a",
                    "overminted",
                    ctx.ev.seq,
                    format!(
                        "pair {} d=({},{}) r=({},{}) S={} minted {}",
                        p.addr, d0, d1, r[0], r[1], s, mu
                    ),
                );
                break;
            }
        }
        cov.eval("C05", "b");
        let lower_ok = (0..2).any(|i| &(&n(mu) + &N::one()) * &n(r[i]) > &n(dd[i]) * &n(s));
        if !lower_ok {
            cov.violate(
                "C05",
                "b",
                "underminted",
                ctx.ev.seq,
                format!(
                    "pair {} d=({},{}) r=({},{}) S={} minted {}",
                    p.addr, d0, d1, r[0], r[1], s, mu
                ),
            );
        }
        if minted_total != m {
            cov.violate(
                "C05",
                "d",
                "supply-vs-minted",
                ctx.ev.seq,
                format!("supply rose by {} but receiver got {}", minted_total, m),
            );
        }
        add(&mut exp, &lpk, &recv, m);
    } else {
        // first provision
        let wl = p.whitelist.iter().any(|w| w == ctx.sender);
        let mins = d0 >= p.mins[0] && d1 >= p.mins[1];
        cov.case(
            "C05",
            format!(
                "{}|first|wl{}|min{}|d^{}^{}",
                p.kind(),
                wl,
                mins,
                lg(d0) / 8,
                lg(d1) / 8
            ),
        );
        cov.eval("C05", "e");
        if !wl || !mins {
            cov.violate(
                "C05",
                "e",
                "first-provision-not-gated",
                ctx.ev.seq,
                format!(
                    "first provision by {} (whitelisted={}) d=({},{}) mins=({},{})",
                    ctx.sender, wl, d0, d1, p.mins[0], p.mins[1]
                ),
            );
        }
        cov.eval("C05", "f");
        let want = (&n(d0) * &n(d1)).isqrt();
        if n(post_supply) != want {
            cov.violate(
                "C05",
                "f",
                "first-supply",
                ctx.ev.seq,
                format!("d=({},{}) supply {} != isqrt {}", d0, d1, post_supply, want),
            );
        }
        cov.eval("C05", "g");
        let locked = ctx.view.post(&lpk, &p.lp);
        let locked_pre = ctx.view.pre(&lpk, &p.lp);
        if recv != p.lp && locked != locked_pre + 1 {
            cov.violate(
                "C05",
                "g",
                "locked-unit",
                ctx.ev.seq,
                format!("LP token's own balance {} -> {}", locked_pre, locked),
            );
        }
        add(&mut exp, &lpk, &p.lp, z(1));
        add(&mut exp, &lpk, &recv, minted_total.clone() - z(1));
    }
    // d) exact pulls
    for i in 0..2 {
        add(&mut exp, &p.keys[i], ctx.sender, -z(dd[i]));
        add(&mut exp, &p.keys[i], &p.addr, z(dd[i]));
    }
    // extra attached coins of denoms that are not pair assets are a donation by the sender
    for f in funds.iter() {
        let k = crate::ledger::native_key(&f.denom);
        if p.index_of_key(&k).is_none() {
            add(&mut exp, &k, ctx.sender, -z(f.amount.u128()));
            add(&mut exp, &k, &p.addr, z(f.amount.u128()));
        }
    }
    exp.retain(|_, v| !v.is_zero());
    if let Some(act) = actual_delta_map(ctx) {
        cov.eval("C05", "d");
        let dm = diff_maps(&exp, &act);
        if !dm.is_empty() {
            cov.violate(
                "C05",
                "d",
                "pulls-not-exact",
                ctx.ev.seq,
                format!("provide on {}: {}", p.addr, dm.join("; ")),
            );
        }
    }
}

/// C07: third parties untouched, totals conserved, LP supply rule
fn c07_third_parties(ctx: &Ctx, cov: &mut Cover) {
    if !ctx.outcome.is_ok() || ctx.view.delta.bal.is_empty() && ctx.view.delta.supply.is_empty() {
        return;
    }
    let m = ctx.model;
    // accounts the operation is allowed to touch
    let mut allowed: Vec<String> = vec![ctx.sender.to_string()];
    let mut receivers: Vec<String> = vec![];
    let mut via_trace = false;
    let mut system_op = true;
    let push_pair = |allowed: &mut Vec<String>, i: usize| {
        if let Some(p) = m.pairs.get(i) {
            allowed.push(p.addr.clone());
            allowed.push(p.lp.clone());
        }
    };
    fn collect(
        op: &Op,
        m: &Model,
        sender: &str,
        allowed: &mut Vec<String>,
        receivers: &mut Vec<String>,
        via_trace: &mut bool,
        system_op: &mut bool,
        push_pair: &dyn Fn(&mut Vec<String>, usize),
    ) {
        let recv = |to: &Option<AddrRef>| -> String {
            to.as_ref()
                .and_then(|t| m.addr(t))
                .unwrap_or_else(|| sender.to_string())
        };
        match op {
            Op::Transfer { to, .. } => {
                if let Some(a) = m.addr(to) {
                    receivers.push(a);
                }
                *system_op = false;
            }
            Op::Approve { .. } => {}
            Op::Provide { pair, receiver, .. } => {
                push_pair(allowed, *pair);
                receivers.push(recv(receiver));
            }
            Op::Withdraw { pair, .. } => push_pair(allowed, *pair),
            Op::SwapExec { pair, to, .. } | Op::SwapHook { pair, to, .. } => {
                push_pair(allowed, *pair);
                receivers.push(recv(to));
                if let Op::SwapHook { from: Some(o), .. } = op {
                    // the account whose allowance the sender spends
                    if let Some(a) = m.addr(o) {
                        allowed.push(a);
                    }
                }
            }
            Op::RouteExec { hops, to, .. } | Op::RouteHook { hops, to, .. } => {
                allowed.push(m.router.clone());
                for h in hops {
                    if let (Some(a), Some(b)) = (m.asset_info(&h.offer), m.asset_info(&h.ask)) {
                        if let Some(i) = m.pair_for(&a, &b) {
                            push_pair(allowed, i);
                        }
                    }
                }
                receivers.push(recv(to));
            }
            Op::CreatePair { .. }
            | Op::AddNativeDecimals { .. }
            | Op::UpdateConfig { .. }
            | Op::MigratePair { .. } => allowed.push(m.factory.clone()),
            Op::Migrate { target, .. } => {
                if let Some(a) = m.addr(target) {
                    allowed.push(a);
                }
            }
            Op::Raw { .. } => {
                *via_trace = true;
                *system_op = false;
            }
            Op::Batch(ops) => {
                for o in ops {
                    collect(o, m, sender, allowed, receivers, via_trace, system_op, push_pair);
                }
            }
            _ => {}
        }
    }
    collect(
        &ctx.ev.op,
        m,
        ctx.sender,
        &mut allowed,
        &mut receivers,
        &mut via_trace,
        &mut system_op,
        &push_pair,
    );
    if via_trace {
        // a raw message: the contracts it reached are the ones it addressed
        for d in ctx.trace {
            allowed.push(d.target.clone());
        }
    }
    let role = if m.bystanders.iter().any(|b| b == ctx.sender) {
        "bystander"
    } else if ctx.sender == m.owner {
        "owner"
    } else if m.is_contract(ctx.sender) {
        "contract"
    } else {
        "actor"
    };
    let recv_class = match receivers.iter().find(|r| *r != ctx.sender) {
        None => "self",
        Some(r) if m.bystanders.contains(r) => "bystander",
        Some(r) if m.actors.contains(r) => "actor",
        Some(r) if m.is_contract(r) => "contract",
        Some(_) => "fresh",
    };
    let pk = match &ctx.ev.op {
        Op::Provide { pair, .. } | Op::Withdraw { pair, .. } | Op::SwapExec { pair, .. } | Op::SwapHook { pair, .. } => {
            m.pairs.get(*pair).map(|p| p.kind()).unwrap_or("?")
        }
        Op::RouteExec { hops, .. } | Op::RouteHook { hops, .. } => match hops.len() {
            0 => "h0",
            1 => "h1",
            2 => "h2",
            3 => "h3",
            _ => "h4+",
        },
        _ => "-",
    };
    cov.case(
        "C07",
        format!(
            "{}|{}|{}|recv-{}|changes{}",
            ctx.ev.op.kind(),
            pk,
            role,
            recv_class,
            ctx.view.delta.bal.len().min(8)
        ),
    );
    cov.eval("C07", "a");
    for c in &ctx.view.delta.bal {
        let is_recv = receivers.contains(&c.account);
        if !allowed.contains(&c.account) && !is_recv {
            cov.violate(
                "C07",
                "a",
                "third-party-touched",
                ctx.ev.seq,
                format!(
                    "{} by {} changed {}@{}: {} -> {}",
                    ctx.ev.op.kind(),
                    ctx.sender,
                    c.asset,
                    c.account,
                    c.old,
                    c.new
                ),
            );
        }
        if is_recv && !allowed.contains(&c.account) {
            cov.eval("C07", "b");
            if c.new < c.old {
                cov.violate(
                    "C07",
                    "b",
                    "receiver-decreased",
                    ctx.ev.seq,
                    format!(
                        "receiver {} balance of {} fell {} -> {}",
                        c.account, c.asset, c.old, c.new
                    ),
                );
            }
        }
    }
    // conservation per asset
    let mut sums: BTreeMap<String, Z> = BTreeMap::new();
    for c in &ctx.view.delta.bal {
        *sums.entry(c.asset.clone()).or_insert_with(Z::zero) += Z::diff(c.new, c.old);
    }
    let lp_assets: Vec<String> = m.pairs.iter().map(|p| p.lp_key()).collect();
    for (asset, sum) in &sums {
        let ds = ctx
            .view
            .delta
            .supply
            .iter()
            .find(|s| &s.0 == asset)
            .map(|s| Z::diff(s.2, s.1))
            .unwrap_or_else(Z::zero);
        if lp_assets.contains(asset) {
            continue;
        }
        cov.eval("C07", "c");
        if !sum.is_zero() || !ds.is_zero() {
            cov.violate(
                "C07",
                "c",
                "not-conserved",
                ctx.ev.seq,
                format!("{}: sum of balance changes {} supply change {}", asset, sum, ds),
            );
        }
    }
    for s in &ctx.view.delta.supply {
        if !lp_assets.contains(&s.0) && !sums.contains_key(&s.0) {
            cov.eval("C07", "c");
            cov.violate(
                "C07",
                "c",
                "not-conserved",
                ctx.ev.seq,
                format!("{}: supply changed {} -> {} with no balance change", s.0, s.1, s.2),
            );
        }
    }
    // LP supply rule
    if system_op {
        for p in &m.pairs {
            let lpk = p.lp_key();
            let ds = Z::diff(ctx.view.post_supply(&lpk), ctx.view.pre_supply(&lpk));
            let sum = sums.get(&lpk).cloned().unwrap_or_else(Z::zero);
            if ds.is_zero() && sum.is_zero() {
                continue;
            }
            cov.eval("C07", "d");
            let provides = ok_dispatches(ctx.trace, &p.addr, &PROVIDE_KINDS).len();
            let withdraws = ok_dispatches(ctx.trace, &p.addr, &WITHDRAW_KINDS).len();
            let ok = ds == sum
                && ((!ds.is_neg() && !ds.is_zero() && provides > 0) || (ds.is_neg() && withdraws > 0) || ds.is_zero());
            if !ok {
                cov.violate(
                    "C07",
                    "d",
                    "lp-supply-rule",
                    ctx.ev.seq,
                    format!(
                        "LP {} supply change {} (balances {}) with {} provisions / {} withdrawals",
                        p.lp, ds, sum, provides, withdraws
                    ),
                );
            }
        }
    }
}

/// C09: declared native amounts equal the attached funds
fn c09_declared(ctx: &Ctx, cov: &mut Cover) {
    let (entry, named, funds, pi): (&str, Vec<&AssetAmt>, &[Fund], usize) = match &ctx.ev.op {
        Op::Provide {
            pair, assets, funds, ..
        } => ("provide", assets.iter().collect(), funds, *pair),
        Op::SwapExec {
            pair, offer, funds, ..
        } => ("exec-swap", vec![offer], funds, *pair),
        Op::SwapHook { pair, offer, .. } => ("hook-swap", vec![offer], &[], *pair),
        _ => return,
    };
    let kind = ctx.model.std_pair(pi).map(|p| p.kind()).unwrap_or("?");
    for a in named {
        if let AssetRef::Native(d) = &a.asset {
            let attached: u128 = funds
                .iter()
                .filter(|f| &f.denom == d)
                .map(|f| f.amount.u128())
                .sum();
            let v = a.amount.u128();
            cov.eval("C09", "a");
            cov.case(
                "C09",
                format!(
                    "{}|{}|decl{}|att{}|extra{}|ok",
                    entry,
                    kind,
                    if v == 0 { "0" } else { "v" },
                    if attached == 0 { "absent" } else if attached < v { "less" } else if attached == v { "equal" } else { "more" },
                    funds.iter().filter(|f| &f.denom != d).count()
                ),
            );
            if attached != v {
                cov.violate(
                    "C09",
                    "a",
                    "declared-ne-attached",
                    ctx.ev.seq,
                    format!(
                        "{} succeeded declaring {} {} with {} attached",
                        entry, v, d, attached
                    ),
                );
            }
        }
    }
}

/// C20: an entitled withdrawal succeeds
fn c20_withdrawable(ctx: &Ctx, cov: &mut Cover) {
    let (pi, a) = match &ctx.ev.op {
        Op::Withdraw { pair, amount } => (*pair, amount.u128()),
        _ => return,
    };
    if ctx.injected || ctx.ev.fail_at.is_some() || !matches!(ctx.ev.sender, AddrRef::Actor(_)) {
        return;
    }
    let p = match ctx.model.std_pair(pi) {
        Some(p) => p,
        None => return,
    };
    let lpk = p.lp_key();
    let s = ctx.view.pre_supply(&lpk);
    let bal = ctx.view.pre(&lpk, ctx.sender);
    if a == 0 || a > bal || s == 0 {
        return;
    }
    let r = [ctx.view.pre(&p.keys[0], &p.addr), ctx.view.pre(&p.keys[1], &p.addr)];
    let e18 = N::e18();
    // r_i*a/S >= r_i/1e18 + 2   <=>   r_i*a*1e18 >= r_i*S + 2*S*1e18
    let entitled = (0..2).all(|i| {
        &(&n(r[i]) * &n(a)) * &e18 >= &(&n(r[i]) * &n(s)) + &(&(&n(2) * &n(s)) * &e18)
    });
    if !entitled {
        cov.reach("C20.not_entitled_skipped");
        return;
    }
    cov.eval("C20", "a");
    cov.case(
        "C20",
        format!(
            "{}|a{}|r^{}^{}|S^{}|{}",
            p.kind(),
            if a == bal { "all" } else if a == 1 { "1" } else { "part" },
            lg(r[0]) / 16,
            lg(r[1]) / 16,
            lg(s) / 16,
            if ctx.ev.dry_run { "probe" } else { "real" }
        ),
    );
    if ctx.outcome.failed() {
        cov.violate(
            "C20",
            "a",
            "entitled-withdrawal-failed",
            ctx.ev.seq,
            format!(
                "holder {} a={} S={} r=({},{}) on {}: {}",
                ctx.sender,
                a,
                s,
                r[0],
                r[1],
                p.addr,
                ctx.outcome.err_text()
            ),
        );
    }
}
