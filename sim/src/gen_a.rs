//! Actor generators, part A: helpers, setup prelude, traders, whale, liquidity providers, donors.
//! Actors observe the current state (ledger, queries) and emit fully concrete operations.

use std::str::FromStr;

use cosmwasm_std::{Decimal, Uint128};

use crate::bignat::{n, N};
use crate::ops::*;
use crate::runner::*;
use crate::sim::PairModel;

pub struct Proto {
    pub sender: AddrRef,
    pub pre: Vec<(AddrRef, Op)>,
    pub op: Op,
    pub note: String,
}

pub fn u(v: u128) -> Uint128 {
    Uint128::new(v)
}

/// atoms (10^-18) -> cosmwasm Decimal, saturating at the Decimal range
pub fn atoms_to_decimal(a: &N) -> Decimal {
    let v = a.to_u128().unwrap_or(u128::MAX);
    let whole = v / 1_000_000_000_000_000_000;
    let frac = v % 1_000_000_000_000_000_000;
    Decimal::from_str(&format!("{}.{:018}", whole, frac)).unwrap()
}

pub const COMMISSIONS: [Option<&str>; 9] = [
    None,
    None,
    Some("0"),
    Some("0.000000000000000001"),
    Some("0.003"),
    Some("0.3"),
    Some("0.5"),
    Some("0.999999999999999999"),
    Some("1"),
];

impl Runner {
    pub fn actor(&self, name: &str) -> AddrRef {
        AddrRef::Actor(name.to_string())
    }
    pub fn owner_ref(&self) -> AddrRef {
        AddrRef::Actor(self.sim.model.owner.clone())
    }
    pub fn bal(&self, asset_key: &str, who: &str) -> u128 {
        self.sim.ledger.get(asset_key, who)
    }
    pub fn pair_state(&self, i: usize) -> (u128, u128, u128) {
        let p = &self.sim.model.pairs[i];
        self.sim.reserves_pre(p)
    }
    pub fn random_actor(&mut self) -> String {
        let names = &self.sim.model.actors;
        let k = self.rng.pick_idx(ACTOR_NAMES.len());
        names[k].clone()
    }
    pub fn delay(&mut self) -> u64 {
        if self.rng.chance(self.profile.delay_rate, 1000) {
            self.rng.range(1, 3)
        } else {
            0
        }
    }
    pub fn maybe_fail_at(&mut self) -> Option<u32> {
        if self.rng.chance(self.profile.fail_at_rate, 1000) {
            Some(self.rng.range(1, 8) as u32)
        } else {
            None
        }
    }
    pub fn pick_to(&mut self, sender: &str) -> Option<AddrRef> {
        match self.rng.weighted(&[70, 14, 8, 5, 3, 2]) {
            5 => Some(AddrRef::Raw(
                self.rng.pick(&["", "ab", "TRADER", "Whale", "tra der", "y".repeat(60).as_str()]).to_string(),
            )),
            0 => None,
            1 => {
                let a = self.random_actor();
                if a == sender {
                    None
                } else {
                    Some(AddrRef::Actor(a))
                }
            }
            2 => Some(AddrRef::Raw(self.fresh_addr())),
            3 => Some(AddrRef::Actor(BYSTANDERS[self.rng.pick_idx(2)].to_string())),
            _ => Some(AddrRef::Actor(sender.to_string())),
        }
    }

    /// structured values: powers of two and ten, limb boundaries (multiples of 2^64, 2^32),
    /// and their neighbours — the places where carries and word-wise shortcuts go wrong
    pub fn structured(&mut self, cap: u128) -> u128 {
        if cap == 0 {
            return 0;
        }
        let v = match self.rng.weighted(&[25, 15, 25, 15, 10, 10]) {
            0 => 1u128 << self.rng.range(1, 126),
            1 => {
                let b = 1u128 << self.rng.range(2, 126);
                if self.rng.chance(50, 100) { b - 1 } else { b + 1 }
            }
            2 => (self.rng.range(1, 2000) as u128) << 64,
            3 => 10u128.pow(self.rng.range(1, 37) as u32),
            4 => (self.rng.range(1, 5) as u128) << 96,
            _ => (self.rng.range(1, 2000) as u128) << 32,
        };
        if v <= cap {
            v
        } else {
            // largest power of two not above the cap keeps the value structured
            1u128 << (127 - cap.leading_zeros())
        }
    }

    /// a number that is already present in the state of the world
    pub fn observed_quantity(&mut self) -> Option<u128> {
        let np = self.sim.model.pairs.len();
        let mut pool: Vec<u128> = vec![];
        if np > 0 {
            let i = self.rng.pick_idx(np);
            let (r0, r1, s) = self.pair_state(i);
            let p = self.sim.model.pairs[i].clone();
            pool.extend([r0, r1, s, s.saturating_sub(1), p.mins[0], p.mins[1]]);
            let who = self.random_actor();
            pool.push(self.bal(&p.keys[0], &who));
            pool.push(self.bal(&p.keys[1], &who));
            pool.push(self.bal(&p.lp_key(), &who));
            let router = self.sim.model.router.clone();
            pool.push(self.bal(&p.keys[0], &router));
        }
        pool.retain(|v| *v > 0);
        if pool.is_empty() {
            None
        } else {
            Some(*self.rng.pick(&pool))
        }
    }

    /// an amount in (0, cap] biased toward interesting magnitudes
    pub fn amount_upto(&mut self, cap: u128) -> u128 {
        if cap == 0 {
            return 0;
        }
        if self.rng.chance(6, 100) {
            return self.structured(cap);
        }
        if self.rng.chance(6, 100) {
            // exactly (or one off) a quantity that already exists in the world: a reserve, a
            // supply, somebody's balance, a configured minimum
            if let Some(v) = self.observed_quantity() {
                let v = match self.rng.weighted(&[60, 20, 20]) {
                    0 => v,
                    1 => v.saturating_add(1),
                    _ => v.saturating_sub(1),
                };
                if v >= 1 && v <= cap {
                    return v;
                }
            }
        }
        match self.rng.weighted(&[8, 30, 40, 12, 10]) {
            0 => 1,
            1 => self.rng.range128(1, (cap / 1000).max(1)),
            2 => self.rng.range128((cap / 100).max(1), (cap / 2).max(1)),
            3 => cap,
            _ => self.rng.range128(1, cap),
        }
    }

    pub fn submit_proto(&mut self, p: Proto) {
        let d = self.delay();
        for (s, o) in p.pre {
            self.submit(s, o, d, &p.note);
        }
        let f = self.maybe_fail_at();
        // the main op may be delayed further than its approvals (allowance expiry, reordering)
        let d2 = d + if self.rng.chance(100, 1000) { self.rng.range(1, 2) } else { 0 };
        self.submit_full(p.sender, p.op, d2, false, f, &p.note);
    }

    // --------------------------------------------------------------------------- prelude

    pub fn all_assets(&self) -> Vec<AssetRef> {
        let mut v: Vec<AssetRef> = self
            .sim
            .model
            .denoms
            .iter()
            .map(|d| AssetRef::Native(d.clone()))
            .collect();
        for i in 0..self.sim.model.tokens.len() {
            v.push(AssetRef::Token(i));
        }
        v
    }

    pub fn pick_new_set(&mut self, allow_lp: bool) -> Option<[AssetRef; 2]> {
        let mut assets = self.all_assets();
        if allow_lp {
            for i in 0..self.sim.model.pairs.len().min(if self.sim.model.pairs.len() > 60 { 40 } else { 12 }) {
                assets.push(AssetRef::Lp(i));
            }
        }
        for _ in 0..40 {
            let a = self.rng.pick(&assets).clone();
            let b = self.rng.pick(&assets).clone();
            if a == b {
                continue;
            }
            let (ia, ib) = (self.sim.model.asset_info(&a)?, self.sim.model.asset_info(&b)?);
            if self.sim.model.pair_for(&ia, &ib).is_none() {
                return Some([a, b]);
            }
        }
        None
    }

    pub fn create_pair_op(&mut self, set: [AssetRef; 2]) -> Op {
        let whitelist = match self.rng.weighted(&[55, 25, 10, 10]) {
            0 => vec![self.actor("owner"), self.actor("lpone"), self.actor("lptwo")],
            1 => vec![self.actor("lpone")],
            2 => vec![],
            _ => ACTOR_NAMES.iter().map(|a| self.actor(a)).collect(),
        };
        let mut whitelist = whitelist;
        // whitelist entries are unchecked strings: some are not well-formed addresses
        if self.rng.chance(12, 100) {
            for _ in 0..self.rng.range(1, 3) {
                let bad = self
                    .rng
                    .pick(&["", "ab", "LPONE", "Owner", "lp one", "lpone ", "y".repeat(60).as_str()])
                    .to_string();
                let at = self.rng.pick_idx(whitelist.len() + 1);
                whitelist.insert(at, AddrRef::Raw(bad));
            }
        }
        let mins = match self.rng.weighted(&[60, 20, 20]) {
            0 => (0, 0),
            1 => (1, 1),
            _ => (self.rng.log_uniform(40), self.rng.log_uniform(40)),
        };
        let commission = match self.rng.weighted(&[70, 30]) {
            0 => self.rng.pick(&COMMISSIONS).map(|s| s.to_string()),
            _ => Some(format!("0.{:018}", self.rng.below(1_000_000_000_000_000_000))),
        };
        Op::CreatePair {
            assets: set,
            whitelist,
            min0: u(mins.0),
            min1: u(mins.1),
            commission,
            lp_decimals: *self.rng.pick(&[None, None, Some(6), Some(18), Some(0)]),
        }
    }

    pub fn setup_prelude(&mut self) {
        let owner = self.actor("owner");
        // register denoms
        let denoms = self.sim.model.denoms.clone();
        for d in &denoms {
            if self.rng.chance(90, 100) {
                self.deliver(
                    owner.clone(),
                    Op::Transfer {
                        asset: AssetRef::Native(d.clone()),
                        to: AddrRef::Factory,
                        amount: u(1),
                    },
                    false,
                    None,
                    "setup".into(),
                );
                let dec = self.rng.range(0, 18) as u8;
                self.deliver(
                    owner.clone(),
                    Op::AddNativeDecimals {
                        denom: d.clone(),
                        decimals: dec,
                    },
                    false,
                    None,
                    "setup".into(),
                );
            }
        }
        // pairs
        let mut np = self.rng.range(self.profile.n_pairs.0, self.profile.n_pairs.1);
        if self.profile.registry_heavy && self.profile.n_pairs.1 >= 40 && self.rng.chance(4, 100) {
            // a registry well beyond every page-size constant of the listing (10, 30, 2 x 30)
            np = self.rng.range(41, 95);
            self.cov.reach("gen.big_registry");
        } else if self.profile.registry_heavy && self.profile.n_pairs.1 >= 40 && self.rng.chance(1, 100) {
            // and, rarely, a registry of a few hundred pairs
            np = self.rng.range(150, 320);
            self.cov.reach("gen.huge_registry");
        }
        for _ in 0..np {
            let allow_lp = self.profile.registry_heavy;
            if let Some(set) = self.pick_new_set(allow_lp) {
                let op = self.create_pair_op(set);
                self.deliver(owner.clone(), op, false, None, "setup".into());
            }
        }
        // initial liquidity
        let npairs = self.sim.model.pairs.len();
        let liquidity_chance = if self.profile.registry_heavy { 15 } else { 92 };
        for i in 0..npairs {
            if !self.rng.chance(liquidity_chance, 100) {
                continue;
            }
            if let Some(p) = self.gen_provide(i, true) {
                for (s, o) in p.pre {
                    self.deliver(s, o, false, None, "setup".into());
                }
                self.deliver(p.sender, p.op, false, None, "setup first-provision".into());
            }
        }
        // bystanders hold open allowances toward every pair and the router
        let by: Vec<String> = self.sim.model.bystanders.clone();
        for b in by {
            for t in 0..self.sim.model.tokens.len() {
                for i in 0..npairs.min(6) {
                    self.deliver(
                        AddrRef::Actor(b.clone()),
                        Op::Approve {
                            token: AssetRef::Token(t),
                            spender: AddrRef::Pair(i),
                            amount: u(u128::MAX >> 4),
                            expires: Expiry::Never,
                        },
                        false,
                        None,
                        "setup bystander-allowance".into(),
                    );
                }
                self.deliver(
                    AddrRef::Actor(b.clone()),
                    Op::Approve {
                        token: AssetRef::Token(t),
                        spender: AddrRef::Router,
                        amount: u(u128::MAX >> 4),
                        expires: Expiry::Never,
                    },
                    false,
                    None,
                    "setup bystander-allowance".into(),
                );
            }
        }
    }

    // ------------------------------------------------------------------------- provision

    fn approvals_for(&mut self, sender: &str, p: &PairModel, pair: usize, d: [u128; 2], exact: bool) -> Vec<(AddrRef, Op)> {
        let mut pre = vec![];
        for k in 0..2 {
            if !matches!(p.refs[k], AssetRef::Native(_)) && d[k] > 0 {
                let expires = match self.rng.weighted(&[80, 10, 10]) {
                    0 => Expiry::Never,
                    1 => Expiry::AtHeight(self.height + self.rng.range(1, 30)),
                    _ => Expiry::AtTime(self.t + self.rng.range(5, 600)),
                };
                pre.push((
                    AddrRef::Actor(sender.to_string()),
                    Op::Approve {
                        token: p.refs[k].clone(),
                        spender: AddrRef::Pair(pair),
                        amount: u(if exact { d[k] } else { d[k].saturating_mul(2) }),
                        expires,
                    },
                ));
            }
        }
        pre
    }

    pub fn provide_op(&self, pair: usize, p: &PairModel, d: [u128; 2], slippage: Option<Decimal>, receiver: Option<AddrRef>, swap_order: bool) -> Op {
        let mut assets = [
            AssetAmt {
                asset: p.refs[0].clone(),
                amount: u(d[0]),
            },
            AssetAmt {
                asset: p.refs[1].clone(),
                amount: u(d[1]),
            },
        ];
        if swap_order {
            assets.swap(0, 1);
        }
        let mut funds = vec![];
        for k in 0..2 {
            if let AssetRef::Native(dn) = &p.refs[k] {
                if d[k] > 0 {
                    funds.push(Fund {
                        denom: dn.clone(),
                        amount: u(d[k]),
                    });
                }
            }
        }
        funds.sort_by(|a, b| a.denom.cmp(&b.denom));
        Op::Provide {
            pair,
            assets,
            funds,
            slippage,
            receiver,
        }
    }

    /// a provision by some actor on pair i (first provision when the pair is empty)
    pub fn gen_provide(&mut self, pair: usize, setup: bool) -> Option<Proto> {
        let p = self.sim.model.pairs.get(pair)?.clone();
        let (r0, r1, s) = self.pair_state(pair);
        let sender: String = if s == 0 {
            // mostly a whitelisted caller
            let wl: Vec<String> =
                p.whitelist.iter().filter(|w| self.sim.model.actors.contains(w)).cloned().collect();
            if !wl.is_empty() && self.rng.chance(if setup { 97 } else { 75 }, 100) {
                self.rng.pick(&wl).clone()
            } else {
                self.random_actor()
            }
        } else {
            self.rng.pick(&["lpone", "lptwo", "lpone", "lptwo", "owner", "whale", "trader"]).to_string()
        };
        let b = [self.bal(&p.keys[0], &sender), self.bal(&p.keys[1], &sender)];
        let mut d = [0u128; 2];
        let mut note = String::from("lp");
        let mut first_slippage: Option<Decimal> = None;
        if s == 0 || r0 == 0 || r1 == 0 {
            for k in 0..2 {
                let cap = if self.rng.chance(75, 100) {
                    b[k].min(1u128 << 62)
                } else {
                    b[k]
                };
                d[k] = match self.rng.weighted(&[6, 10, 70, 14]) {
                    0 => self.rng.range128(1, 1000).min(cap.max(1)),
                    1 => p.mins[k].max(1),
                    2 => self.rng.range128((cap / 50).max(1), (cap / 2).max(1)),
                    _ => self.amount_upto(cap),
                };
                if self.rng.chance(8, 100) {
                    d[k] = self.structured(cap.max(1));
                }
                if d[k] < p.mins[k] && self.rng.chance(85, 100) {
                    d[k] = p.mins[k].min(b[k].max(1));
                }
            }
            note.push_str(" first");
            // a first provision may carry a tolerance too (the pool may be one-sided after donations)
            if !setup && self.rng.chance(self.profile.guard_rate / 2, 1000) {
                let t = n(*self.rng.pick(&[
                    0u128,
                    10_000_000_000_000_000,
                    500_000_000_000_000_000,
                    999_999_999_999_999_999,
                    1_000_000_000_000_000_000,
                ]));
                first_slippage = Some(atoms_to_decimal(&t));
            }
        } else {
            // balanced around the current ratio, sometimes deliberately unbalanced
            let k0 = self.rng.pick_idx(2);
            let k1 = 1 - k0;
            let r = [r0, r1];
            d[k0] = self.amount_upto(b[k0].min(r[k0].saturating_mul(4).max(1)));
            let ideal = (&n(d[k0]) * &n(r[k1])).div_floor(&n(r[k0])).to_u128().unwrap_or(u128::MAX);
            d[k1] = match self.rng.weighted(&[45, 15, 15, 15, 10]) {
                0 => ideal,
                1 => ideal.saturating_add(1),
                2 => ideal.saturating_sub(1),
                3 => {
                    // within a few percent
                    let pm = ideal / 50 + 1;
                    ideal.saturating_sub(pm) + self.rng.range128(0, 2 * pm)
                }
                _ => self.amount_upto(b[k1].max(1)),
            };
            if d[k1] == 0 && self.rng.chance(80, 100) {
                d[k1] = 1;
            }
            if self.rng.chance(4, 100) {
                d[k0] = 1;
            }
        }
        // slippage tolerance
        let mut slippage = first_slippage;
        if !setup && s > 0 && r0 > 0 && r1 > 0 && d[0] > 0 && d[1] > 0 && self.rng.chance(self.profile.guard_rate, 1000) {
            let e18 = N::e18();
            // t* for direction i: 1 - (r_i d_j)/(r_j d_i)
            let i = self.rng.pick_idx(2);
            let j = 1 - i;
            let r = [r0, r1];
            let num = &(&n(r[i]) * &n(d[j])) * &e18;
            let den = &n(r[j]) * &n(d[i]);
            let q = num.div_floor(&den);
            let tstar = if q <= e18 { &e18 - &q } else { N::zero() };
            let t = match self.rng.weighted(&[50, 30, 8, 6, 6]) {
                0 => {
                    let off = self.rng.range(0, 4);
                    (&tstar + &n(off as u128)).sat_sub(&n(2))
                }
                1 => n(*self.rng.pick(&[
                    0u128,
                    1,
                    1_000_000_000_000_000,
                    10_000_000_000_000_000,
                    500_000_000_000_000_000,
                    999_999_999_999_999_999,
                    1_000_000_000_000_000_000,
                ])),
                2 => n(self.rng.below(1_000_000_000_000_000_000) as u128),
                3 => n(1_000_000_000_000_000_001),
                _ => n(2_000_000_000_000_000_000),
            };
            slippage = Some(atoms_to_decimal(&t));
            note.push_str(" guarded");
        }
        let receiver = if setup {
            None
        } else {
            match self.rng.weighted(&[78, 12, 5, 3, 2, 2]) {
                5 => Some(AddrRef::Raw(
                    // strings that are not valid addresses
                    self.rng.pick(&["", "ab", "LPONE", "Trader", "lp one", "x".repeat(60).as_str()]).to_string(),
                )),
                0 => None,
                1 => Some(AddrRef::Actor(self.random_actor())),
                2 => Some(AddrRef::Actor(BYSTANDERS[self.rng.pick_idx(2)].to_string())),
                3 => Some(AddrRef::Raw(self.fresh_addr())),
                _ => Some(match self.rng.pick_idx(4) {
                    0 => AddrRef::Pair(pair),
                    1 => AddrRef::Router,
                    2 => AddrRef::Factory,
                    _ => AddrRef::Lp(pair),
                }),
            }
        };
        let exact = self.rng.chance(50, 100);
        let skip_approval = !setup && self.rng.chance(4, 100);
        let pre = if skip_approval {
            self.cov.fault("F12_missing_allowance_generated");
            vec![]
        } else {
            self.approvals_for(&sender, &p, pair, d, exact)
        };
        let swap_order = self.rng.chance(30, 100);
        Some(Proto {
            sender: AddrRef::Actor(sender),
            pre,
            op: self.provide_op(pair, &p, d, slippage, receiver, swap_order),
            note,
        })
    }

    pub fn gen_withdraw(&mut self) -> Option<Proto> {
        let np = self.sim.model.pairs.len();
        if np == 0 {
            return None;
        }
        // find (pair, holder) with a balance
        for _ in 0..8 {
            let i = self.rng.pick_idx(np);
            let lpk = self.sim.model.pairs[i].lp_key();
            let holder = self.random_actor();
            let b = self.bal(&lpk, &holder);
            if b == 0 {
                continue;
            }
            let a = match self.rng.weighted(&[10, 35, 25, 20, 10]) {
                0 => 1,
                1 => (b / 3).max(1),
                2 => b,
                3 => self.rng.range128(1, b),
                _ => b.saturating_add(self.rng.range128(1, 5)),
            };
            return Some(Proto {
                sender: AddrRef::Actor(holder),
                pre: vec![],
                op: Op::Withdraw { pair: i, amount: u(a) },
                note: "lp withdraw".into(),
            });
        }
        None
    }

    /// an LP holder hands (part of) its LP tokens to another account, which may withdraw later
    pub fn gen_lp_transfer(&mut self) -> Option<Proto> {
        let np = self.sim.model.pairs.len();
        if np == 0 {
            return None;
        }
        for _ in 0..6 {
            let i = self.rng.pick_idx(np);
            let lpk = self.sim.model.pairs[i].lp_key();
            let holder = self.random_actor();
            let b = self.bal(&lpk, &holder);
            if b == 0 {
                continue;
            }
            let to = self.random_actor();
            if to == holder {
                continue;
            }
            let amount = self.amount_upto(b);
            // one in five LP transfers parks the tokens on a contract of the system
            let to_ref = if self.rng.chance(20, 100) {
                match self.rng.pick_idx(3) {
                    0 => AddrRef::Pair(i),
                    1 => AddrRef::Router,
                    _ => AddrRef::Lp(i),
                }
            } else {
                AddrRef::Actor(to)
            };
            return Some(Proto {
                sender: AddrRef::Actor(holder),
                pre: vec![],
                op: Op::Transfer {
                    asset: AssetRef::Lp(i),
                    to: to_ref,
                    amount: u(amount),
                },
                note: "lp transfer".into(),
            });
        }
        None
    }

    pub fn gen_donation(&mut self) -> Option<Proto> {
        if self.rng.chance(12, 100) {
            if let Some(p) = self.gen_lp_transfer() {
                return Some(p);
            }
        }
        let np = self.sim.model.pairs.len();
        let donor = self.rng.pick(&["donor", "whale", "donor", "trader"]).to_string();
        let (to, asset): (AddrRef, AssetRef) = if np > 0 && self.rng.chance(80, 100) {
            let i = self.rng.pick_idx(np);
            let k = self.rng.pick_idx(2);
            (AddrRef::Pair(i), self.sim.model.pairs[i].refs[k].clone())
        } else {
            let assets = self.all_assets();
            (AddrRef::Router, self.rng.pick(&assets).clone())
        };
        let key = self.sim.model.asset_key(&asset)?;
        let b = self.bal(&key, &donor);
        if b == 0 {
            return None;
        }
        let amount = self.amount_upto(b);
        self.cov.fault("F8_donation_generated");
        Some(Proto {
            sender: AddrRef::Actor(donor),
            pre: vec![],
            op: Op::Transfer {
                asset,
                to,
                amount: u(amount),
            },
            note: "donor".into(),
        })
    }

    // ------------------------------------------------------------------------------ swap

    pub fn swap_op(&self, pair: usize, offer_ref: &AssetRef, a: u128, belief: Option<Decimal>, max_spread: Option<Decimal>, to: Option<AddrRef>) -> Op {
        let offer = AssetAmt {
            asset: offer_ref.clone(),
            amount: u(a),
        };
        match offer_ref {
            AssetRef::Native(d) => Op::SwapExec {
                pair,
                offer,
                funds: if a > 0 {
                    vec![Fund {
                        denom: d.clone(),
                        amount: u(a),
                    }]
                } else {
                    vec![]
                },
                belief,
                max_spread,
                to,
            },
            other => Op::SwapHook {
                pair,
                via: Via::Cw20(other.clone()),
                sent: u(a),
                offer,
                belief,
                max_spread,
                to,
                from: None,
            },
        }
    }

    /// offers that put an intermediate division of the pricing formula on a rounding boundary
    pub fn directed_offer(&mut self, x: u128, y: u128, cap: u128) -> Option<(u128, &'static str)> {
        if x == 0 || y == 0 {
            return None;
        }
        let xy = &n(x) * &n(y);
        let e18 = N::e18();
        if self.rng.chance(70, 100) {
            // thin window: x + a = floor(x*y / k), k <= sqrt(x*y / 1e18), k < y
            let kmax = xy.div_floor(&e18).isqrt();
            let kmax = N::min(&kmax, &n(y - 1));
            if kmax.is_zero() {
                return None;
            }
            let kmax = kmax.to_u128()?;
            let k = match self.rng.weighted(&[40, 30, 30]) {
                0 => self.rng.range128(1, kmax),
                1 => kmax - self.rng.range128(0, (kmax - 1).min(400)),
                _ => self.rng.range128(1, kmax.min(1000)),
            };
            let xa = xy.div_floor(&n(k)).to_u128()?;
            let a = xa.checked_sub(x)?;
            if a == 0 || a > cap {
                return None;
            }
            Some((a, "thin-window"))
        } else {
            // zero quotient: a > x*y*1e18 - x
            let a = (&(&xy * &e18) + &N::one()).to_u128()?;
            if a > cap {
                return None;
            }
            Some((a, "zero-quotient"))
        }
    }

    pub fn gen_swap(&mut self, who: &str, directed: bool) -> Option<Proto> {
        let np = self.sim.model.pairs.len();
        if np == 0 {
            return None;
        }
        for _ in 0..6 {
            let i = self.rng.pick_idx(np);
            let p = self.sim.model.pairs[i].clone();
            let (r0, r1, _s) = self.pair_state(i);
            if r0 == 0 && r1 == 0 {
                continue;
            }
            let oi = self.rng.pick_idx(2);
            let r = [r0, r1];
            let (x, y) = (r[oi], r[1 - oi]);
            let b = self.bal(&p.keys[oi], who);
            if b == 0 && self.rng.chance(95, 100) {
                continue;
            }
            let mut note = String::from(if directed { "whale" } else { "trader" });
            let mut a = 0u128;
            if directed {
                if let Some((da, tag)) = self.directed_offer(x, y, b) {
                    a = da;
                    note.push(' ');
                    note.push_str(tag);
                    self.cov.reach(&format!("gen.directed.{}", tag));
                }
            }
            if a == 0 {
                a = match self.rng.weighted(&[6, 24, 36, 10, 6, 18]) {
                    0 => 1,
                    1 => self.rng.range128(1, (x / 1000).max(1)),
                    2 => self.rng.range128((x / 100).max(1), (x / 2).max(1)),
                    3 => self.rng.range128(x.max(1), x.saturating_mul(4).max(1)),
                    4 => b,
                    _ => self.rng.range128(1, b.max(1)),
                };
                if a > b && self.rng.chance(92, 100) {
                    a = b;
                }
                if a == 0 {
                    a = 1;
                }
            }
            let (mut belief, mut max_spread) = (None, None);
            if self.rng.chance(self.profile.guard_rate, 1000) {
                let info = self.sim.model.asset_info(&p.refs[oi])?;
                if let Ok(q) = self.sim.pair_simulation(&p, &info, a) {
                    let (od, rd) = (p.decimals[oi], p.decimals[1 - oi]);
                    let (o_n, r_n, sp_n) = if od > rd && od != 255 && rd != 255 {
                        let f = N::pow10((od - rd) as u32);
                        (n(a), &n(q.return_amount.u128()) * &f, &n(q.spread_amount.u128()) * &f)
                    } else if rd != 255 && od != 255 {
                        let f = N::pow10((rd - od) as u32);
                        (&n(a) * &f, n(q.return_amount.u128()), n(q.spread_amount.u128()))
                    } else {
                        (n(a), n(q.return_amount.u128()), n(q.spread_amount.u128()))
                    };
                    let e18 = N::e18();
                    let fixed: [u128; 8] = [
                        0,
                        1,
                        1_000_000_000_000_000,
                        10_000_000_000_000_000,
                        500_000_000_000_000_000,
                        999_999_999_999_999_999,
                        1_000_000_000_000_000_000,
                        1_500_000_000_000_000_000,
                    ];
                    if self.rng.chance(50, 100) {
                        // spread only: s around sp'/(R'+sp')
                        let tot = &r_n + &sp_n;
                        let s = if !tot.is_zero() && self.rng.chance(65, 100) {
                            let rho = (&sp_n * &e18).div_floor(&tot);
                            (&rho + &n(self.rng.range(0, 4) as u128)).sat_sub(&n(2))
                        } else {
                            n(*self.rng.pick(&fixed))
                        };
                        max_spread = Some(atoms_to_decimal(&s));
                        note.push_str(" sp-guard");
                    } else if !r_n.is_zero() {
                        // belief price around O'/R', spread on the boundary of what it implies
                        let exact_p = (&o_n * &e18).div_floor(&r_n);
                        let p_atoms = match self.rng.weighted(&[30, 30, 25, 15]) {
                            0 => exact_p.clone(),
                            1 => (&exact_p + &n(self.rng.range(0, 4) as u128)).sat_sub(&n(2)),
                            2 => {
                                // a price up to 10% better than the pool gives
                                let cut = self.rng.range(1, 100) as u128;
                                (&exact_p * &n(1000 - cut)).div_floor(&n(1000))
                            }
                            _ => (&exact_p * &n(1000 + self.rng.range(1, 100) as u128)).div_floor(&n(1000)),
                        };
                        if !p_atoms.is_zero() && p_atoms.bits() <= 126 {
                            let expected = (&o_n * &e18).div_floor(&p_atoms);
                            let s = if expected > r_n && self.rng.chance(70, 100) {
                                let sstar = (&(&expected - &r_n) * &e18).div_floor(&expected);
                                (&sstar + &n(self.rng.range(0, 4) as u128)).sat_sub(&n(2))
                            } else {
                                n(*self.rng.pick(&fixed))
                            };
                            belief = Some(atoms_to_decimal(&p_atoms));
                            max_spread = Some(atoms_to_decimal(&s));
                            note.push_str(" bp-guard");
                        }
                    }
                }
            }
            let to = self.pick_to(who);
            let mut op = self.swap_op(i, &p.refs[oi], a, belief, max_spread, to);
            let mut pre = vec![];
            if matches!(op, Op::SwapHook { .. }) && self.rng.chance(8, 100) {
                // allowance-based entry: spend another actor's tokens (cw20 SendFrom)
                let owner = self.random_actor();
                let ob = self.bal(&p.keys[oi], &owner);
                if owner != who && ob > 0 {
                    if let Op::SwapHook { from, sent, offer, .. } = &mut op {
                        let amt = sent.u128().min(ob);
                        *sent = u(amt);
                        offer.amount = u(amt);
                        *from = Some(AddrRef::Actor(owner.clone()));
                        pre.push((
                            AddrRef::Actor(owner),
                            Op::Approve {
                                token: p.refs[oi].clone(),
                                spender: AddrRef::Actor(who.to_string()),
                                amount: u(amt),
                                expires: Expiry::Never,
                            },
                        ));
                        note.push_str(" send-from");
                    }
                }
            }
            return Some(Proto {
                sender: AddrRef::Actor(who.to_string()),
                pre,
                op,
                note,
            });
        }
        None
    }
}
