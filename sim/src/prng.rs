//! xoshiro256** seeded through splitmix64. The only source of randomness in the simulator.

#[derive(Clone, Debug)]
pub struct Rng {
    s: [u64; 4],
}

pub fn splitmix64(x: &mut u64) -> u64 {
    *x = x.wrapping_add(0x9E37_79B9_7F4A_7C15);
    let mut z = *x;
    z = (z ^ (z >> 30)).wrapping_mul(0xBF58_476D_1CE4_E5B9);
    z = (z ^ (z >> 27)).wrapping_mul(0x94D0_49BB_1331_11EB);
    z ^ (z >> 31)
}

/// Derive the seed of run `index` of `stream` (a property / profile tag) from the base seed.
pub fn derive_seed(base: u64, stream: &str, index: u64) -> u64 {
    let mut h: u64 = base ^ 0xA5A5_5A5A_DEAD_BEEF;
    let mut out = splitmix64(&mut h);
    for b in stream.bytes() {
        h ^= b as u64;
        out ^= splitmix64(&mut h);
    }
    h ^= index.wrapping_mul(0x2545_F491_4F6C_DD1D);
    out ^ splitmix64(&mut h)
}

impl Rng {
    pub fn new(seed: u64) -> Rng {
        let mut x = seed;
        let s = [
            splitmix64(&mut x),
            splitmix64(&mut x),
            splitmix64(&mut x),
            splitmix64(&mut x),
        ];
        Rng { s }
    }

    pub fn next_u64(&mut self) -> u64 {
        let result = self.s[1].wrapping_mul(5).rotate_left(7).wrapping_mul(9);
        let t = self.s[1] << 17;
        self.s[2] ^= self.s[0];
        self.s[3] ^= self.s[1];
        self.s[1] ^= self.s[2];
        self.s[0] ^= self.s[3];
        self.s[2] ^= t;
        self.s[3] = self.s[3].rotate_left(45);
        result
    }

    pub fn next_u128(&mut self) -> u128 {
        ((self.next_u64() as u128) << 64) | self.next_u64() as u128
    }

    /// uniform in [0, n) ; n > 0
    pub fn below(&mut self, n: u64) -> u64 {
        assert!(n > 0);
        // rejection-free multiply-shift is fine here (bias < 2^-64 * n)
        ((self.next_u64() as u128 * n as u128) >> 64) as u64
    }

    pub fn below128(&mut self, n: u128) -> u128 {
        assert!(n > 0);
        if n <= u64::MAX as u128 {
            return self.below(n as u64) as u128;
        }
        // simple modulo: bias is irrelevant for the simulator
        self.next_u128() % n
    }

    /// uniform in [lo, hi] inclusive
    pub fn range(&mut self, lo: u64, hi: u64) -> u64 {
        assert!(lo <= hi);
        lo + self.below(hi - lo + 1)
    }

    pub fn range128(&mut self, lo: u128, hi: u128) -> u128 {
        assert!(lo <= hi);
        if hi - lo == u128::MAX {
            return self.next_u128();
        }
        lo + self.below128(hi - lo + 1)
    }

    pub fn chance(&mut self, num: u64, den: u64) -> bool {
        self.below(den) < num
    }

    pub fn pick<'a, T>(&mut self, xs: &'a [T]) -> &'a T {
        &xs[self.below(xs.len() as u64) as usize]
    }

    pub fn pick_idx(&mut self, n: usize) -> usize {
        self.below(n as u64) as usize
    }

    /// weighted pick: returns index
    pub fn weighted(&mut self, w: &[u32]) -> usize {
        let tot: u64 = w.iter().map(|x| *x as u64).sum();
        assert!(tot > 0);
        let mut r = self.below(tot);
        for (i, x) in w.iter().enumerate() {
            if r < *x as u64 {
                return i;
            }
            r -= *x as u64;
        }
        w.len() - 1
    }

    /// log-uniform amount: pick a bit length in [1, max_bits] uniformly, then a value with that bit length
    pub fn log_uniform(&mut self, max_bits: u32) -> u128 {
        let bits = self.range(1, max_bits as u64) as u32;
        self.with_bits(bits)
    }

    pub fn log_uniform_between(&mut self, min_bits: u32, max_bits: u32) -> u128 {
        let bits = self.range(min_bits.max(1) as u64, max_bits as u64) as u32;
        self.with_bits(bits)
    }

    /// value with exactly `bits` significant bits (bits in 1..=128)
    pub fn with_bits(&mut self, bits: u32) -> u128 {
        assert!((1..=128).contains(&bits));
        let top: u128 = 1u128 << (bits - 1);
        if bits == 1 {
            return 1;
        }
        top | (self.next_u128() & (top - 1))
    }

    pub fn shuffle<T>(&mut self, xs: &mut [T]) {
        for i in (1..xs.len()).rev() {
            let j = self.below(i as u64 + 1) as usize;
            xs.swap(i, j);
        }
    }
}
