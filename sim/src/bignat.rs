//! Arbitrary-precision naturals for the oracles. Shares nothing with bigint::U256,
//! bignumber or cosmwasm_std::Uint256. Little-endian u32 limbs, always normalised
//! (no trailing zero limbs; zero is the empty vector).

use std::cmp::Ordering;
use std::fmt;
use std::ops::{Add, Mul, Sub};

#[derive(Clone, PartialEq, Eq, Hash, Default)]
pub struct N(Vec<u32>);

impl N {
    pub fn zero() -> N {
        N(vec![])
    }
    pub fn one() -> N {
        N(vec![1])
    }
    pub fn from_u64(v: u64) -> N {
        N::from_u128(v as u128)
    }
    pub fn from_u128(mut v: u128) -> N {
        let mut out = vec![];
        while v > 0 {
            out.push(v as u32);
            v >>= 32;
        }
        N(out)
    }
    pub fn to_u128(&self) -> Option<u128> {
        if self.0.len() > 4 {
            return None;
        }
        let mut v: u128 = 0;
        for (i, l) in self.0.iter().enumerate() {
            v |= (*l as u128) << (32 * i);
        }
        Some(v)
    }
    pub fn is_zero(&self) -> bool {
        self.0.is_empty()
    }
    pub fn bits(&self) -> u32 {
        match self.0.last() {
            None => 0,
            Some(t) => (self.0.len() as u32 - 1) * 32 + (32 - t.leading_zeros()),
        }
    }
    fn norm(mut v: Vec<u32>) -> N {
        while let Some(0) = v.last() {
            v.pop();
        }
        N(v)
    }
    pub fn pow10(k: u32) -> N {
        let mut r = N::one();
        let ten = N::from_u64(10);
        for _ in 0..k {
            r = &r * &ten;
        }
        r
    }
    pub fn e18() -> N {
        N::from_u64(1_000_000_000_000_000_000)
    }

    pub fn add_ref(&self, o: &N) -> N {
        let (a, b) = if self.0.len() >= o.0.len() {
            (&self.0, &o.0)
        } else {
            (&o.0, &self.0)
        };
        let mut out = Vec::with_capacity(a.len() + 1);
        let mut carry = 0u64;
        for i in 0..a.len() {
            let s = a[i] as u64 + if i < b.len() { b[i] as u64 } else { 0 } + carry;
            out.push(s as u32);
            carry = s >> 32;
        }
        if carry > 0 {
            out.push(carry as u32);
        }
        N(out)
    }

    pub fn checked_sub(&self, o: &N) -> Option<N> {
        if self.cmp(o) == Ordering::Less {
            return None;
        }
        let mut out = Vec::with_capacity(self.0.len());
        let mut borrow = 0i64;
        for i in 0..self.0.len() {
            let mut d = self.0[i] as i64 - borrow - if i < o.0.len() { o.0[i] as i64 } else { 0 };
            if d < 0 {
                d += 1 << 32;
                borrow = 1;
            } else {
                borrow = 0;
            }
            out.push(d as u32);
        }
        debug_assert!(borrow == 0);
        Some(N::norm(out))
    }

    /// saturating subtraction (never negative)
    pub fn sat_sub(&self, o: &N) -> N {
        self.checked_sub(o).unwrap_or_else(N::zero)
    }

    pub fn mul_ref(&self, o: &N) -> N {
        if self.is_zero() || o.is_zero() {
            return N::zero();
        }
        let mut out = vec![0u32; self.0.len() + o.0.len()];
        for (i, a) in self.0.iter().enumerate() {
            let mut carry = 0u64;
            for (j, b) in o.0.iter().enumerate() {
                let t = out[i + j] as u64 + (*a as u64) * (*b as u64) + carry;
                out[i + j] = t as u32;
                carry = t >> 32;
            }
            let mut k = i + o.0.len();
            while carry > 0 {
                let t = out[k] as u64 + carry;
                out[k] = t as u32;
                carry = t >> 32;
                k += 1;
            }
        }
        N::norm(out)
    }

    fn divrem_small(&self, d: u32) -> (N, u32) {
        let mut out = vec![0u32; self.0.len()];
        let mut rem = 0u64;
        for i in (0..self.0.len()).rev() {
            let cur = (rem << 32) | self.0[i] as u64;
            out[i] = (cur / d as u64) as u32;
            rem = cur % d as u64;
        }
        (N::norm(out), rem as u32)
    }

    fn shl_bits(&self, s: u32) -> Vec<u32> {
        // s < 32; result has one extra limb
        let mut out = Vec::with_capacity(self.0.len() + 1);
        let mut carry = 0u32;
        for l in &self.0 {
            if s == 0 {
                out.push(*l);
            } else {
                out.push((l << s) | carry);
                carry = l >> (32 - s);
            }
        }
        out.push(carry);
        out
    }

    /// (self / d, self % d); panics on d == 0. Knuth algorithm D.
    pub fn divrem(&self, d: &N) -> (N, N) {
        assert!(!d.is_zero(), "BigNat division by zero");
        if self.cmp(d) == Ordering::Less {
            return (N::zero(), self.clone());
        }
        if d.0.len() == 1 {
            let (q, r) = self.divrem_small(d.0[0]);
            return (q, N::from_u64(r as u64));
        }
        let n = d.0.len();
        let m = self.0.len() - n;
        let s = d.0[n - 1].leading_zeros();
        let mut v = d.shl_bits(s);
        v.pop(); // normalised divisor has exactly n limbs
        let mut u = self.shl_bits(s); // len = self.len + 1
        let mut q = vec![0u32; m + 1];
        let b: u64 = 1 << 32;
        for j in (0..=m).rev() {
            let num = ((u[j + n] as u64) << 32) | u[j + n - 1] as u64;
            let mut qhat = num / v[n - 1] as u64;
            let mut rhat = num % v[n - 1] as u64;
            while qhat >= b || qhat * v[n - 2] as u64 > ((rhat << 32) | u[j + n - 2] as u64) {
                qhat -= 1;
                rhat += v[n - 1] as u64;
                if rhat >= b {
                    break;
                }
            }
            // multiply and subtract
            let mut borrow: i64 = 0;
            let mut carry: u64 = 0;
            for i in 0..n {
                let p = qhat * v[i] as u64 + carry;
                carry = p >> 32;
                let t = u[i + j] as i64 - borrow - (p & 0xFFFF_FFFF) as i64;
                if t < 0 {
                    u[i + j] = (t + (1 << 32)) as u32;
                    borrow = 1;
                } else {
                    u[i + j] = t as u32;
                    borrow = 0;
                }
            }
            let t = u[j + n] as i64 - borrow - carry as i64;
            if t < 0 {
                u[j + n] = (t + (1 << 32)) as u32;
                // add back
                qhat -= 1;
                let mut c = 0u64;
                for i in 0..n {
                    let s2 = u[i + j] as u64 + v[i] as u64 + c;
                    u[i + j] = s2 as u32;
                    c = s2 >> 32;
                }
                u[j + n] = (u[j + n] as u64 + c) as u32;
            } else {
                u[j + n] = t as u32;
            }
            q[j] = qhat as u32;
        }
        // remainder: u[0..n] >> s
        let mut r = vec![0u32; n];
        for i in 0..n {
            if s == 0 {
                r[i] = u[i];
            } else {
                r[i] = (u[i] >> s) | (u[i + 1] << (32 - s));
            }
        }
        (N::norm(q), N::norm(r))
    }

    pub fn div_floor(&self, d: &N) -> N {
        self.divrem(d).0
    }
    pub fn div_ceil(&self, d: &N) -> N {
        let (q, r) = self.divrem(d);
        if r.is_zero() {
            q
        } else {
            q.add_ref(&N::one())
        }
    }
    pub fn rem(&self, d: &N) -> N {
        self.divrem(d).1
    }

    /// floor(sqrt(self))
    pub fn isqrt(&self) -> N {
        if self.is_zero() {
            return N::zero();
        }
        // Newton from above
        let mut x = {
            // 2^ceil(bits/2)
            let k = (self.bits() + 1) / 2;
            let mut v = vec![0u32; (k / 32) as usize + 1];
            v[(k / 32) as usize] = 1 << (k % 32);
            N::norm(v)
        };
        loop {
            let y = x.add_ref(&self.div_floor(&x)).divrem_small(2).0;
            if y.cmp(&x) != Ordering::Less {
                return x;
            }
            x = y;
        }
    }

    pub fn from_dec_str(s: &str) -> Option<N> {
        if s.is_empty() {
            return None;
        }
        let mut r = N::zero();
        let ten = N::from_u64(10);
        for c in s.bytes() {
            if !c.is_ascii_digit() {
                return None;
            }
            r = r.mul_ref(&ten).add_ref(&N::from_u64((c - b'0') as u64));
        }
        Some(r)
    }

    pub fn min(a: &N, b: &N) -> N {
        if a <= b {
            a.clone()
        } else {
            b.clone()
        }
    }
}

impl Ord for N {
    fn cmp(&self, o: &N) -> Ordering {
        if self.0.len() != o.0.len() {
            return self.0.len().cmp(&o.0.len());
        }
        for i in (0..self.0.len()).rev() {
            if self.0[i] != o.0[i] {
                return self.0[i].cmp(&o.0[i]);
            }
        }
        Ordering::Equal
    }
}
impl PartialOrd for N {
    fn partial_cmp(&self, o: &N) -> Option<Ordering> {
        Some(self.cmp(o))
    }
}

impl fmt::Display for N {
    fn fmt(&self, f: &mut fmt::Formatter) -> fmt::Result {
        if self.is_zero() {
            return write!(f, "0");
        }
        let mut parts = vec![];
        let mut cur = self.clone();
        while !cur.is_zero() {
            let (q, r) = cur.divrem_small(1_000_000_000);
            parts.push(r);
            cur = q;
        }
        let mut s = format!("{}", parts.pop().unwrap());
        while let Some(p) = parts.pop() {
            s.push_str(&format!("{:09}", p));
        }
        write!(f, "{}", s)
    }
}
impl fmt::Debug for N {
    fn fmt(&self, f: &mut fmt::Formatter) -> fmt::Result {
        write!(f, "{}", self)
    }
}

impl From<u128> for N {
    fn from(v: u128) -> N {
        N::from_u128(v)
    }
}
impl From<u64> for N {
    fn from(v: u64) -> N {
        N::from_u64(v)
    }
}

macro_rules! binop {
    ($tr:ident, $m:ident, $f:expr) => {
        impl<'a> $tr<&'a N> for &'a N {
            type Output = N;
            fn $m(self, o: &N) -> N {
                $f(self, o)
            }
        }
        impl $tr<N> for N {
            type Output = N;
            fn $m(self, o: N) -> N {
                $f(&self, &o)
            }
        }
        impl<'a> $tr<&'a N> for N {
            type Output = N;
            fn $m(self, o: &N) -> N {
                $f(&self, o)
            }
        }
        impl<'a> $tr<N> for &'a N {
            type Output = N;
            fn $m(self, o: N) -> N {
                $f(self, &o)
            }
        }
    };
}
binop!(Add, add, |a: &N, b: &N| a.add_ref(b));
binop!(Mul, mul, |a: &N, b: &N| a.mul_ref(b));
binop!(Sub, sub, |a: &N, b: &N| a
    .checked_sub(b)
    .expect("BigNat subtraction underflow"));


/// Signed big integer (sign + magnitude) for ledger differences: balances reach u128::MAX,
/// so neither i128 casts nor u128 subtraction are safe.
#[derive(Clone, PartialEq, Eq, Debug)]
pub struct Z {
    pub neg: bool,
    pub mag: N,
}

impl Z {
    pub fn zero() -> Z {
        Z { neg: false, mag: N::zero() }
    }
    fn norm(neg: bool, mag: N) -> Z {
        let neg = neg && !mag.is_zero();
        Z { neg, mag }
    }
    /// a - b
    pub fn diff(a: u128, b: u128) -> Z {
        if a >= b {
            Z::norm(false, N::from_u128(a - b))
        } else {
            Z::norm(true, N::from_u128(b - a))
        }
    }
    pub fn is_zero(&self) -> bool {
        self.mag.is_zero()
    }
    pub fn is_neg(&self) -> bool {
        self.neg
    }
    pub fn add_z(&self, o: &Z) -> Z {
        if self.neg == o.neg {
            Z::norm(self.neg, &self.mag + &o.mag)
        } else if self.mag >= o.mag {
            Z::norm(self.neg, &self.mag - &o.mag)
        } else {
            Z::norm(o.neg, &o.mag - &self.mag)
        }
    }
    pub fn negated(&self) -> Z {
        Z::norm(!self.neg, self.mag.clone())
    }
    /// magnitude as u128 when non-negative and it fits
    pub fn to_u128(&self) -> Option<u128> {
        if self.neg {
            None
        } else {
            self.mag.to_u128()
        }
    }
}

pub fn z(v: u128) -> Z {
    Z { neg: false, mag: N::from_u128(v) }
}

impl std::ops::Neg for Z {
    type Output = Z;
    fn neg(self) -> Z {
        self.negated()
    }
}
impl std::ops::Add for Z {
    type Output = Z;
    fn add(self, o: Z) -> Z {
        self.add_z(&o)
    }
}
impl std::ops::Sub for Z {
    type Output = Z;
    fn sub(self, o: Z) -> Z {
        self.add_z(&o.negated())
    }
}
impl std::ops::AddAssign for Z {
    fn add_assign(&mut self, o: Z) {
        *self = self.add_z(&o);
    }
}
impl PartialOrd for Z {
    fn partial_cmp(&self, o: &Z) -> Option<Ordering> {
        Some(match (self.neg, o.neg) {
            (false, true) => Ordering::Greater,
            (true, false) => Ordering::Less,
            (false, false) => self.mag.cmp(&o.mag),
            (true, true) => o.mag.cmp(&self.mag),
        })
    }
}
impl fmt::Display for Z {
    fn fmt(&self, f: &mut fmt::Formatter) -> fmt::Result {
        if self.neg {
            write!(f, "-{}", self.mag)
        } else if f.sign_plus() {
            write!(f, "+{}", self.mag)
        } else {
            write!(f, "{}", self.mag)
        }
    }
}

pub fn n(v: u128) -> N {
    N::from_u128(v)
}

#[cfg(test)]
mod tests {
    use super::*;
    use crate::prng::Rng;

    // vectors generated with Python (see tests/bignat_vectors.txt)
    #[test]
    fn python_vectors() {
        let data = include_str!("../tests/bignat_vectors.txt");
        let mut count = 0;
        for line in data.lines() {
            let p: Vec<&str> = line.split_whitespace().collect();
            if p.is_empty() {
                continue;
            }
            let a = N::from_dec_str(p[1]).unwrap();
            let b = N::from_dec_str(p[2]).unwrap();
            match p[0] {
                "mul" => assert_eq!((&a * &b).to_string(), p[3]),
                "add" => assert_eq!((&a + &b).to_string(), p[3]),
                "sub" => assert_eq!((&a - &b).to_string(), p[3]),
                "div" => {
                    let (q, r) = a.divrem(&b);
                    assert_eq!(q.to_string(), p[3], "{} / {}", a, b);
                    assert_eq!(r.to_string(), p[4]);
                }
                "sqrt" => assert_eq!(a.isqrt().to_string(), p[3]),
                _ => panic!(),
            }
            count += 1;
        }
        assert!(count > 1000);
    }

    #[test]
    fn divrem_identity_random() {
        let mut r = Rng::new(7);
        for _ in 0..20000 {
            let la = r.range(0, 6);
            let lb = r.range(1, 5);
            let mut a = N::zero();
            for _ in 0..la {
                a = &(&a * &N::from_u128(1u128 << 64)) + &N::from_u64(special(&mut r));
            }
            let mut b = N::zero();
            for _ in 0..lb {
                b = &(&b * &N::from_u128(1u128 << 32)) + &N::from_u64(special(&mut r) & 0xFFFF_FFFF);
            }
            if b.is_zero() {
                continue;
            }
            let (q, rem) = a.divrem(&b);
            assert!(rem < b);
            assert_eq!(&(&q * &b) + &rem, a);
        }
    }
    fn special(r: &mut Rng) -> u64 {
        match r.below(6) {
            0 => 0,
            1 => u64::MAX,
            2 => 0xFFFF_FFFF,
            3 => 0x8000_0000_0000_0000,
            4 => 0xFFFF_FFFF_0000_0000,
            _ => r.next_u64(),
        }
    }
    #[test]
    fn u128_roundtrip() {
        for v in [0u128, 1, u64::MAX as u128, u128::MAX, 1 << 64, (1 << 96) + 5] {
            assert_eq!(N::from_u128(v).to_u128(), Some(v));
            assert_eq!(N::from_u128(v).to_string(), v.to_string());
        }
    }
}
