//! Actor generators, part B: adversary (message shapes, funds tampering), router users,
//! owner / former owner, raw attackers, probes; and the per-tick dispatch.

use cosmwasm_std::{to_binary, Uint128};
use cw20::Cw20ReceiveMsg;
use haloswap::asset::{Asset, AssetInfo};

use crate::gen_a::*;
use crate::ops::*;
use crate::orc_factory::{classify, satisfies};
use crate::runner::*;
use crate::world::CODE_PAIR_V2;

impl Runner {
    // ------------------------------------------------------------------------- adversary

    fn other_denom(&mut self, not: &[&str]) -> Option<String> {
        let c: Vec<String> = self
            .sim
            .model
            .denoms
            .iter()
            .filter(|d| !not.contains(&d.as_str()))
            .cloned()
            .collect();
        if c.is_empty() {
            None
        } else {
            Some(self.rng.pick(&c).clone())
        }
    }

    pub fn gen_adversary(&mut self) -> Option<Proto> {
        let np = self.sim.model.pairs.len();
        if np == 0 {
            return None;
        }
        let who = self.rng.pick(&["trader", "tradez", "whale", "lptwo"]).to_string();
        let i = self.rng.pick_idx(np);
        let p = self.sim.model.pairs[i].clone();
        let (r0, r1, _s) = self.pair_state(i);
        let r = [r0, r1];
        let tokens_in_pair: Vec<usize> = (0..2).filter(|k| !matches!(p.refs[*k], AssetRef::Native(_))).collect();
        let natives_in_pair: Vec<usize> = (0..2).filter(|k| matches!(p.refs[*k], AssetRef::Native(_))).collect();
        let to = self.pick_to(&who);
        let variant = self.rng.weighted(&[14, 8, 6, 4, 4, 6, 20, 6, 6, 14, 4, 4, 4]);
        let sender = AddrRef::Actor(who.clone());
        let small = |rn: &mut crate::prng::Rng, cap: u128| -> u128 { rn.range128(1, (cap / 20).max(1)) };
        match variant {
            // hook through one pair token while naming the other asset (F6)
            0 if !tokens_in_pair.is_empty() => {
                let k = *self.rng.pick(&tokens_in_pair);
                let b = self.bal(&p.keys[k], &who);
                if b == 0 {
                    return None;
                }
                let a = small(&mut self.rng, b.min(r[k].max(1)));
                self.cov.fault("F6_named_asset_ne_delivered");
                Some(Proto {
                    sender,
                    pre: vec![],
                    op: Op::SwapHook {
                        pair: i,
                        via: Via::Cw20(p.refs[k].clone()),
                        sent: u(a),
                        offer: AssetAmt {
                            asset: p.refs[1 - k].clone(),
                            amount: u(a),
                        },
                        belief: None,
                        max_spread: None,
                        to,
                        from: None,
                    },
                    note: "adversary named-other-asset".into(),
                })
            }
            // named amount differs from the amount sent
            1 if !tokens_in_pair.is_empty() => {
                let k = *self.rng.pick(&tokens_in_pair);
                let b = self.bal(&p.keys[k], &who);
                if b < 2 {
                    return None;
                }
                let a = small(&mut self.rng, b).max(2);
                let named = match self.rng.weighted(&[30, 30, 10, 30]) {
                    0 => a + 1,
                    1 => a - 1,
                    2 => 0,
                    _ => a.saturating_mul(1000),
                };
                self.cov.fault("F6_named_amount_ne_delivered");
                Some(Proto {
                    sender,
                    pre: vec![],
                    op: Op::SwapHook {
                        pair: i,
                        via: Via::Cw20(p.refs[k].clone()),
                        sent: u(a),
                        offer: AssetAmt {
                            asset: p.refs[k].clone(),
                            amount: u(named),
                        },
                        belief: None,
                        max_spread: None,
                        to,
                        from: None,
                    },
                    note: "adversary named-other-amount".into(),
                })
            }
            // hook through a foreign token (not a pair asset) naming a pair asset
            2 => {
                let nt = self.sim.model.tokens.len();
                let foreign: Vec<usize> = (0..nt)
                    .filter(|t| !p.refs.contains(&AssetRef::Token(*t)))
                    .collect();
                if foreign.is_empty() {
                    return None;
                }
                let t = *self.rng.pick(&foreign);
                let key = self.sim.model.asset_key(&AssetRef::Token(t))?;
                let b = self.bal(&key, &who);
                if b == 0 {
                    return None;
                }
                let a = small(&mut self.rng, b);
                let k = self.rng.pick_idx(2);
                self.cov.fault("F6_foreign_token_hook");
                Some(Proto {
                    sender,
                    pre: vec![],
                    op: Op::SwapHook {
                        pair: i,
                        via: Via::Cw20(AssetRef::Token(t)),
                        sent: u(a),
                        offer: AssetAmt {
                            asset: p.refs[k].clone(),
                            amount: u(a),
                        },
                        belief: None,
                        max_spread: None,
                        to,
                        from: None,
                    },
                    note: "adversary foreign-token-hook".into(),
                })
            }
            // forged Receive from the rogue contract
            3 => {
                let k = self.rng.pick_idx(2);
                let a = small(&mut self.rng, r[k].max(20));
                self.cov.fault("F11_rogue_forged_receive");
                Some(Proto {
                    sender,
                    pre: vec![],
                    op: Op::SwapHook {
                        pair: i,
                        via: Via::Rogue,
                        sent: u(a),
                        offer: AssetAmt {
                            asset: p.refs[k].clone(),
                            amount: u(a),
                        },
                        belief: None,
                        max_spread: None,
                        to,
                        from: None,
                    },
                    note: "adversary rogue-receive".into(),
                })
            }
            // swap hook sent through the pair's own LP token
            4 => {
                let lpk = p.lp_key();
                let b = self.bal(&lpk, &who);
                if b == 0 {
                    return None;
                }
                let a = small(&mut self.rng, b);
                let k = self.rng.pick_idx(2);
                self.cov.fault("F6_lp_token_swap_hook");
                Some(Proto {
                    sender,
                    pre: vec![],
                    op: Op::SwapHook {
                        pair: i,
                        via: Via::Cw20(AssetRef::Lp(i)),
                        sent: u(a),
                        offer: AssetAmt {
                            asset: p.refs[k].clone(),
                            amount: u(a),
                        },
                        belief: None,
                        max_spread: None,
                        to,
                        from: None,
                    },
                    note: "adversary lp-token-hook".into(),
                })
            }
            // execute-swap naming a cw20 asset
            5 if !tokens_in_pair.is_empty() => {
                let k = *self.rng.pick(&tokens_in_pair);
                let a = small(&mut self.rng, r[k].max(20));
                let funds = if let (true, Some(d)) = (self.rng.chance(50, 100), self.other_denom(&[])) {
                    let bd = self.bal(&crate::ledger::native_key(&d), &who);
                    if bd > 0 {
                        vec![Fund { denom: d, amount: u(small(&mut self.rng, bd)) }]
                    } else {
                        vec![]
                    }
                } else {
                    vec![]
                };
                self.cov.fault("F6_exec_swap_names_cw20");
                Some(Proto {
                    sender,
                    pre: vec![],
                    op: Op::SwapExec {
                        pair: i,
                        offer: AssetAmt { asset: p.refs[k].clone(), amount: u(a) },
                        funds,
                        belief: None,
                        max_spread: None,
                        to,
                    },
                    note: "adversary exec-names-cw20".into(),
                })
            }
            // funds tampering on execute-swap (F5): declared x attached x extra coin
            6 | 7 if !natives_in_pair.is_empty() => {
                let k = *self.rng.pick(&natives_in_pair);
                let denom = match &p.refs[k] {
                    AssetRef::Native(d) => d.clone(),
                    _ => return None,
                };
                let b = self.bal(&p.keys[k], &who);
                if b < 4 {
                    return None;
                }
                let v = small(&mut self.rng, b.min(r[k].max(40))).max(2);
                let declared = if variant == 7 || self.rng.chance(15, 100) { 0 } else { v };
                if self.rng.chance(25, 100) {
                    // the declared amount is attached, but in another denom (look-alikes first)
                    let lower = denom.to_lowercase();
                    let mut cands: Vec<String> = self
                        .sim
                        .model
                        .denoms
                        .iter()
                        .filter(|d| **d != denom && (d.to_lowercase() == lower || d.starts_with(denom.as_str()) || denom.starts_with(d.as_str())))
                        .cloned()
                        .collect();
                    if cands.is_empty() {
                        cands = self.sim.model.denoms.iter().filter(|d| **d != denom).cloned().collect();
                    }
                    if !cands.is_empty() {
                        let other = self.rng.pick(&cands).clone();
                        let bo = self.bal(&crate::ledger::native_key(&other), &who);
                        if bo > 0 {
                            let amt = v.min(bo);
                            self.cov.fault("F5_declared_amount_in_other_denom");
                            return Some(Proto {
                                sender,
                                pre: vec![],
                                op: Op::SwapExec {
                                    pair: i,
                                    offer: AssetAmt { asset: p.refs[k].clone(), amount: u(amt) },
                                    funds: vec![Fund { denom: other, amount: u(amt) }],
                                    belief: None,
                                    max_spread: None,
                                    to,
                                },
                                note: "adversary substitute-denom".into(),
                            });
                        }
                    }
                }
                let attached = match self.rng.weighted(&[16, 18, 14, 18, 18, 16]) {
                    0 => 0,
                    1 => v - 1,
                    2 => v,
                    3 => v + 1,
                    4 => v * 2,
                    _ => 1,
                };
                let mut funds = vec![];
                if attached > 0 {
                    funds.push(Fund { denom: denom.clone(), amount: u(attached) });
                }
                // extra coin: none / unrelated denom / the pair's other native denom
                match self.rng.weighted(&[50, 25, 25]) {
                    1 => {
                        let other_pair_denoms: Vec<&str> = p
                            .refs
                            .iter()
                            .filter_map(|a| if let AssetRef::Native(d) = a { Some(d.as_str()) } else { None })
                            .collect();
                        if let Some(d) = self.other_denom(&other_pair_denoms) {
                            let bd = self.bal(&crate::ledger::native_key(&d), &who);
                            if bd > 0 {
                                funds.push(Fund { denom: d, amount: u(small(&mut self.rng, bd)) });
                            }
                        }
                    }
                    2 => {
                        if let AssetRef::Native(d) = &p.refs[1 - k] {
                            let bd = self.bal(&p.keys[1 - k], &who);
                            if bd > 0 {
                                funds.push(Fund { denom: d.clone(), amount: u(small(&mut self.rng, bd)) });
                            }
                        }
                    }
                    _ => {}
                }
                funds.sort_by(|a, b| a.denom.cmp(&b.denom));
                self.cov.fault("F5_funds_ne_declared");
                Some(Proto {
                    sender,
                    pre: vec![],
                    op: Op::SwapExec {
                        pair: i,
                        offer: AssetAmt { asset: p.refs[k].clone(), amount: u(declared) },
                        funds,
                        belief: None,
                        max_spread: None,
                        to,
                    },
                    note: "adversary funds-tamper-swap".into(),
                })
            }
            // execute-swap naming a native denom that is not a pair asset
            8 => {
                let pair_denoms: Vec<&str> = p
                    .refs
                    .iter()
                    .filter_map(|a| if let AssetRef::Native(d) = a { Some(d.as_str()) } else { None })
                    .collect();
                let d = self.other_denom(&pair_denoms)?;
                let bd = self.bal(&crate::ledger::native_key(&d), &who);
                if bd == 0 {
                    return None;
                }
                let a = small(&mut self.rng, bd);
                self.cov.fault("F6_foreign_native_named");
                Some(Proto {
                    sender,
                    pre: vec![],
                    op: Op::SwapExec {
                        pair: i,
                        offer: AssetAmt { asset: AssetRef::Native(d.clone()), amount: u(a) },
                        funds: vec![Fund { denom: d, amount: u(a) }],
                        belief: None,
                        max_spread: None,
                        to,
                    },
                    note: "adversary foreign-native".into(),
                })
            }
            // funds tampering on provide
            9 | 10 => {
                let mut proto = self.gen_provide(i, false)?;
                if let Op::Provide { assets, funds, .. } = &mut proto.op {
                    let tamper = self.rng.weighted(&[25, 20, 20, 10, 10, 15]);
                    match tamper {
                        0 => {
                            // attach less / more of a declared native
                            if let Some(f) = funds.first_mut() {
                                let v = f.amount.u128();
                                f.amount = u(match self.rng.weighted(&[34, 33, 33]) {
                                    0 => v.saturating_sub(1).max(1),
                                    1 => v + 1,
                                    _ => v * 2,
                                });
                            }
                        }
                        1 => {
                            // drop a declared native coin, or attach its amount in another denom
                            if !funds.is_empty() {
                                let f = funds.remove(0);
                                if self.rng.chance(50, 100) {
                                    let lower = f.denom.to_lowercase();
                                    let mut cands: Vec<String> = self
                                        .sim
                                        .model
                                        .denoms
                                        .iter()
                                        .filter(|d| **d != f.denom && !funds.iter().any(|x| x.denom == **d))
                                        .cloned()
                                        .collect();
                                    cands.sort_by_key(|d| if d.to_lowercase() == lower { 0 } else { 1 });
                                    if let Some(other) = cands.first() {
                                        let bo = self.bal(&crate::ledger::native_key(other), &who);
                                        if bo >= f.amount.u128() {
                                            funds.push(Fund { denom: other.clone(), amount: f.amount });
                                            funds.sort_by(|a, b| a.denom.cmp(&b.denom));
                                        }
                                    }
                                }
                            }
                        }
                        2 => {
                            // declare zero of a native but attach the coin
                            for a in assets.iter_mut() {
                                if matches!(a.asset, AssetRef::Native(_)) {
                                    a.amount = u(0);
                                    break;
                                }
                            }
                        }
                        3 => {
                            // both assets the same
                            assets[1] = assets[0].clone();
                        }
                        4 => {
                            // a foreign asset in place of one pair asset; half of the time
                            // the coin of the replaced native asset is not attached either
                            let all = self.all_assets();
                            let f = self.rng.pick(&all).clone();
                            let slot = self.rng.pick_idx(2);
                            if self.rng.chance(50, 100) {
                                if let AssetRef::Native(d) = &assets[slot].asset {
                                    let d = d.clone();
                                    funds.retain(|x| x.denom != d);
                                }
                            }
                            assets[slot].asset = f;
                        }
                        _ => {
                            // extra unrelated coin
                            let pair_denoms: Vec<&str> = p
                                .refs
                                .iter()
                                .filter_map(|a| if let AssetRef::Native(d) = a { Some(d.as_str()) } else { None })
                                .collect();
                            if let Some(d) = self.other_denom(&pair_denoms) {
                                let bd = self.bal(&crate::ledger::native_key(&d), &who);
                                if bd > 0 {
                                    funds.push(Fund { denom: d, amount: u(small(&mut self.rng, bd)) });
                                    funds.sort_by(|a, b| a.denom.cmp(&b.denom));
                                }
                            }
                        }
                    }
                }
                self.cov.fault("F5_provide_tampered");
                proto.note = "adversary provide-tamper".into();
                Some(proto)
            }
            // withdraw through the wrong pair / more than held
            11 => {
                let j = self.rng.pick_idx(np);
                let lpk = p.lp_key();
                let b = self.bal(&lpk, &who);
                if b == 0 {
                    return None;
                }
                self.cov.fault("F7_withdraw_hook_wrong_pair");
                let hook = to_binary(&haloswap::pair::Cw20HookMsg::WithdrawLiquidity {}).unwrap();
                let target = self.sim.model.pairs[j].addr.clone();
                Some(Proto {
                    sender,
                    pre: vec![],
                    op: Op::Raw {
                        target: AddrRef::Lp(i),
                        msg: serde_json::json!({"send": {"contract": target, "amount": u(small(&mut self.rng, b)), "msg": hook}}).to_string(),
                        funds: vec![],
                    },
                    note: "adversary withdraw-via-other-pair".into(),
                })
            }
            // receiver is a contract of the system
            _ => {
                let mut proto = self.gen_swap(&who, false)?;
                let dest = match self.rng.weighted(&[40, 20, 20, 20]) {
                    0 => AddrRef::Pair(i),
                    1 => AddrRef::Lp(i),
                    2 => AddrRef::Router,
                    _ => AddrRef::Factory,
                };
                match &mut proto.op {
                    Op::SwapExec { to, .. } | Op::SwapHook { to, .. } => *to = Some(dest),
                    _ => {}
                }
                proto.note = "adversary contract-receiver".into();
                Some(proto)
            }
        }
    }

    // ---------------------------------------------------------------------------- router

    /// a random simple path of up to `max_hops` over distinct pairs
    pub fn random_path(&mut self, max_hops: usize) -> Option<Vec<Hop>> {
        let np = self.sim.model.pairs.len();
        if np == 0 {
            return None;
        }
        let first = self.rng.pick_idx(np);
        let mut used = vec![first];
        let dir = self.rng.pick_idx(2);
        let p = &self.sim.model.pairs[first];
        let mut hops = vec![Hop {
            offer: p.refs[dir].clone(),
            ask: p.refs[1 - dir].clone(),
        }];
        let want = self.rng.range(1, max_hops as u64) as usize;
        while hops.len() < want {
            let cur = hops.last().unwrap().ask.clone();
            let cands: Vec<(usize, usize)> = self
                .sim
                .model
                .pairs
                .iter()
                .enumerate()
                .filter(|(j, _)| !used.contains(j))
                .filter_map(|(j, q)| q.refs.iter().position(|a| *a == cur).map(|k| (j, k)))
                .collect();
            if cands.is_empty() {
                break;
            }
            let (j, k) = *self.rng.pick(&cands);
            let q = &self.sim.model.pairs[j];
            hops.push(Hop {
                offer: q.refs[k].clone(),
                ask: q.refs[1 - k].clone(),
            });
            used.push(j);
        }
        Some(hops)
    }

    pub fn gen_route(&mut self) -> Option<Proto> {
        let who = self.rng.pick(&["trader", "tradez", "whale", "lpone"]).to_string();
        let mut note = String::from("router-user");
        let mut hops = self.random_path(4)?;
        // malformed shapes
        let shape = self.rng.weighted(&[84, 3, 5, 4, 4]);
        match shape {
            1 => {
                hops.clear();
                note.push_str(" empty");
            }
            2 => {
                // two dangling outputs: append an unrelated hop
                if let Some(mut other) = self.random_path(1) {
                    hops.append(&mut other);
                    note.push_str(" appended-unrelated");
                }
            }
            3 => {
                // repeated pair: A->B, B->A, A->B
                let h = hops[0].clone();
                hops = vec![
                    h.clone(),
                    Hop { offer: h.ask.clone(), ask: h.offer.clone() },
                    h,
                ];
                note.push_str(" repeated-pair");
            }
            4 => {
                hops.reverse();
                note.push_str(" reversed");
            }
            _ => {}
        }
        let first_offer = hops.first().map(|h| h.offer.clone()).unwrap_or(AssetRef::Native("uaura".into()));
        let key = self.sim.model.asset_key(&first_offer)?;
        let b = self.bal(&key, &who);
        if b == 0 {
            return None;
        }
        // size the input relative to the first pool
        let x = {
            let (ia, ib) = match hops.first() {
                Some(h) => (self.sim.model.asset_info(&h.offer)?, self.sim.model.asset_info(&h.ask)?),
                None => (self.sim.model.asset_info(&first_offer)?, self.sim.model.asset_info(&first_offer)?),
            };
            match self.sim.model.pair_for(&ia, &ib) {
                Some(pi) => {
                    let p = &self.sim.model.pairs[pi];
                    let k = p.index_of_key(&key).unwrap_or(0);
                    self.bal(&p.keys[k], &p.addr.clone())
                }
                None => b,
            }
        };
        let input = self.amount_upto(b.min(x.saturating_mul(2).max(1)));
        let quote = self.sim.router_quote(&hops, input, false).ok();
        let min_receive = match (quote, self.rng.weighted(&[20, 20, 22, 14, 8, 8, 8])) {
            (_, 0) => None,
            (Some(q), 1) => Some(q),
            (Some(q), 2) => Some(q.saturating_sub(1)),
            (Some(q), 3) => Some(q.saturating_add(1)),
            (Some(q), 4) => Some(q / 2),
            (Some(q), 5) => {
                if self.rng.chance(50, 100) {
                    Some(q.saturating_mul(2))
                } else {
                    // exactly what some account already holds of some asset
                    self.observed_quantity().or(Some(q))
                }
            }
            (_, 6) => Some(0),
            (None, _) => Some(self.rng.range128(0, input)),
            _ => None,
        };
        let mut to = self.pick_to(&who);
        if self.rng.chance(4, 100) {
            // the recipient is a contract of the system: the router itself or a pair on the route
            to = Some(match self.rng.weighted(&[50, 35, 15]) {
                0 => AddrRef::Router,
                1 => AddrRef::Pair(self.rng.pick_idx(self.sim.model.pairs.len().max(1))),
                _ => AddrRef::Factory,
            });
        }
        let op = match &first_offer {
            AssetRef::Native(d) => {
                let mut funds = vec![Fund { denom: d.clone(), amount: u(input) }];
                if shape != 0 {
                    // malformed shapes: also fund every other native offer asset that no earlier
                    // hop produces, so that a wrongly accepted route can actually run
                    let mut produced: Vec<AssetRef> = vec![];
                    for h in hops.iter() {
                        if let AssetRef::Native(od) = &h.offer {
                            if !produced.contains(&h.offer) && od != d && !funds.iter().any(|f| &f.denom == od) {
                                let bo = self.bal(&crate::ledger::native_key(od), &who);
                                if bo > 0 {
                                    funds.push(Fund { denom: od.clone(), amount: u(self.amount_upto(bo.min(input.max(1)))) });
                                }
                            }
                        }
                        produced.push(h.ask.clone());
                    }
                    funds.sort_by(|a, b| a.denom.cmp(&b.denom));
                }
                if self.rng.chance(5, 100) {
                    // an extra coin the router does not need
                    if let Some(o) = self.other_denom(&[d.as_str()]) {
                        let bo = self.bal(&crate::ledger::native_key(&o), &who);
                        if bo > 0 {
                            funds.push(Fund { denom: o, amount: u(1) });
                            funds.sort_by(|a, b| a.denom.cmp(&b.denom));
                        }
                    }
                }
                Op::RouteExec { hops, funds, min_receive: min_receive.map(u), to }
            }
            other => Op::RouteHook {
                via: other.clone(),
                sent: u(input),
                hops,
                min_receive: min_receive.map(u),
                to,
            },
        };
        Some(Proto { sender: AddrRef::Actor(who), pre: vec![], op, note })
    }

    // ----------------------------------------------------------------------------- owner

    pub fn gen_owner(&mut self) -> Option<Proto> {
        let owner = self.owner_ref();
        let heavy = self.profile.registry_heavy;
        let w: [u32; 7] = if heavy { [46, 26, 6, 4, 12, 3, 3] } else { [20, 30, 12, 12, 16, 5, 5] };
        match self.rng.weighted(&w) {
            // create a new pair
            0 => {
                let set = self.pick_new_set(heavy)?;
                let set = if self.rng.chance(50, 100) { [set[1].clone(), set[0].clone()] } else { set };
                let op = self.create_pair_op(set);
                Some(Proto { sender: owner, pre: vec![], op, note: "owner create".into() })
            }
            // (re-)register a denom's decimals
            1 => {
                let d = self.rng.pick(&self.sim.model.denoms.clone()).clone();
                let dec = match self.rng.weighted(&[84, 10, 6]) {
                    0 => self.rng.range(0, 18) as u8,
                    // re-registration with the value it already has
                    1 => self.sim.model.natives.get(&d).copied().unwrap_or(6),
                    // nothing stops the owner from registering more than 18 decimals
                    _ => *self.rng.pick(&[19u8, 24, 38, 77, 255]),
                };
                let mut pre = vec![];
                if self.bal(&crate::ledger::native_key(&d), &self.sim.model.factory.clone()) == 0 {
                    pre.push((
                        owner.clone(),
                        Op::Transfer { asset: AssetRef::Native(d.clone()), to: AddrRef::Factory, amount: u(1) },
                    ));
                }
                Some(Proto {
                    sender: owner,
                    pre,
                    op: Op::AddNativeDecimals { denom: d, decimals: dec },
                    note: "owner decimals".into(),
                })
            }
            // ownership transfer (to another actor, later possibly back)
            2 => {
                let new = self.random_actor();
                // sometimes the same message also (re)sets the code ids, to valid values
                let (t, p) = match self.rng.weighted(&[50, 20, 15, 15]) {
                    0 => (None, None),
                    1 => (Some(crate::world::CODE_CW20), Some(crate::world::CODE_PAIR)),
                    2 => (None, Some(CODE_PAIR_V2)),
                    _ => (Some(crate::world::CODE_CW20), None),
                };
                let keep_owner = self.rng.chance(15, 100);
                Some(Proto {
                    sender: owner,
                    pre: vec![],
                    op: Op::UpdateConfig {
                        owner: if keep_owner { None } else { Some(AddrRef::Actor(new)) },
                        token_code_id: t,
                        pair_code_id: p,
                    },
                    note: "owner update-config".into(),
                })
            }
            // migrate a pair (restart on the same code over surviving storage); sometimes the
            // factory or the router itself is migrated by its chain-level admin
            3 if self.rng.chance(30, 100) => {
                let (target, code) = if self.rng.chance(60, 100) {
                    (AddrRef::Factory, crate::world::CODE_FACTORY_V2)
                } else {
                    (AddrRef::Router, crate::world::CODE_ROUTER_V2)
                };
                self.cov.fault("F10_factory_or_router_migrated_generated");
                Some(Proto {
                    // the admin is the account that deployed the system, whoever owns the factory now
                    sender: AddrRef::Actor("owner".to_string()),
                    pre: vec![],
                    op: Op::Migrate { target, code_id: code },
                    note: "admin migrate".into(),
                })
            }
            3 => {
                let np = self.sim.model.pairs.len();
                if np == 0 {
                    return None;
                }
                let i = self.rng.pick_idx(np);
                self.cov.fault("F10_pair_migrated_generated");
                Some(Proto {
                    sender: owner,
                    pre: vec![],
                    op: Op::MigratePair { pair: AddrRef::Pair(i), code_id: Some(CODE_PAIR_V2) },
                    note: "owner migrate".into(),
                })
            }
            // creations that must fail: duplicate (either order), identical assets,
            // unregistered denom, dead address, non-cw20 contract
            4 => {
                let assets = self.all_assets();
                let np = self.sim.model.pairs.len();
                let set: [AssetRef; 2] = match self.rng.weighted(&[30, 20, 15, 15, 10, 10, 8]) {
                    0 if np > 0 => {
                        let p = &self.sim.model.pairs[self.rng.pick_idx(np)];
                        if self.rng.chance(50, 100) { [p.refs[1].clone(), p.refs[0].clone()] } else { p.refs.clone() }
                    }
                    1 => {
                        let a = self.rng.pick(&assets).clone();
                        [a.clone(), a]
                    }
                    2 => [AssetRef::Native(format!("unreg{}", self.rng.below(3))), self.rng.pick(&assets).clone()],
                    3 => [AssetRef::Raw(format!("deadtoken{}", self.rng.below(3))), self.rng.pick(&assets).clone()],
                    4 => [AssetRef::Raw(self.sim.model.router.clone()), self.rng.pick(&assets).clone()],
                    6 if !self.sim.model.tokens.is_empty() => {
                        // the same token twice, differing only by letter case
                        let t = self.rng.pick_idx(self.sim.model.tokens.len());
                        [AssetRef::Raw(self.sim.model.tokens[t].to_uppercase()), AssetRef::Token(t)]
                    }
                    _ => [AssetRef::Raw(self.sim.model.rogue.clone()), self.rng.pick(&assets).clone()],
                };
                let op = self.create_pair_op(set);
                Some(Proto { sender: owner, pre: vec![], op, note: "owner create-invalid".into() })
            }
            // the former owner (or a stranger) tries a privileged operation
            5 => {
                let who = if let Some(f) = self.sim.model.former_owners.last() { f.clone() } else { "trader".to_string() };
                let set = self.pick_new_set(false)?;
                let op = if self.rng.chance(50, 100) {
                    self.create_pair_op(set)
                } else {
                    Op::UpdateConfig { owner: Some(AddrRef::Actor(who.clone())), token_code_id: None, pair_code_id: None }
                };
                self.cov.fault("F7_privileged_from_non_owner");
                Some(Proto { sender: AddrRef::Actor(who), pre: vec![], op, note: "former-owner privileged".into() })
            }
            // commission above 1 / malformed requirement
            _ => {
                let set = self.pick_new_set(false)?;
                let mut op = self.create_pair_op(set);
                if let Op::CreatePair { commission, .. } = &mut op {
                    *commission = Some(self.rng.pick(&["1.000000000000000001", "2", "115792089237316195423570985008687907853269984665640564039457"]).to_string());
                }
                Some(Proto { sender: owner, pre: vec![], op, note: "owner create-bad-commission".into() })
            }
        }
    }

    // ---------------------------------------------------------------------- raw attacker

    /// privileged / internal messages sent by callers that are not authorised for them
    pub fn gen_raw_attack(&mut self) -> Option<Proto> {
        let m = self.sim.model.clone();
        let np = m.pairs.len();
        let stranger = self.random_actor();
        let mut cands: Vec<(String, String)> = vec![
            (m.factory.clone(), serde_json::json!({"update_config": {"owner": stranger}}).to_string()),
            (m.factory.clone(), serde_json::json!({"update_config": {"pair_code_id": 5}}).to_string()),
        ];
        if let Some(d) = m.denoms.first() {
            cands.push((
                m.factory.clone(),
                serde_json::json!({"add_native_token_decimals": {"denom": d, "decimals": 1}}).to_string(),
            ));
        }
        if np > 0 {
            let p = &m.pairs[self.rng.pick_idx(np)];
            cands.push((m.factory.clone(), serde_json::json!({"migrate_pair": {"contract": p.addr, "code_id": 5}}).to_string()));
            cands.push((
                p.addr.clone(),
                serde_json::json!({"update_native_token_decimals": {"denom": m.denoms.first().cloned().unwrap_or_default(), "asset_decimals": [0, 0]}}).to_string(),
            ));
            let amount = Uint128::new(self.rng.range128(1, 1_000_000));
            let w = Cw20ReceiveMsg {
                sender: stranger.clone(),
                amount,
                msg: to_binary(&haloswap::pair::Cw20HookMsg::WithdrawLiquidity {}).unwrap(),
            };
            cands.push((p.addr.clone(), serde_json::json!({ "receive": w }).to_string()));
            let k = self.rng.pick_idx(2);
            let s = Cw20ReceiveMsg {
                sender: stranger.clone(),
                amount,
                msg: to_binary(&haloswap::pair::Cw20HookMsg::Swap {
                    offer_asset: Asset { info: p.infos[k].clone(), amount },
                    belief_price: None,
                    max_spread: None,
                    to: None,
                })
                .unwrap(),
            };
            cands.push((p.addr.clone(), serde_json::json!({ "receive": s }).to_string()));
            cands.push((
                m.router.clone(),
                serde_json::json!({"execute_swap_operation": {
                    "operation": {"halo_swap": {"offer_asset_info": p.infos[k], "ask_asset_info": p.infos[1 - k]}},
                    "to": stranger
                }}).to_string(),
            ));
            let asset: AssetInfo = p.infos[k].clone();
            cands.push((
                m.router.clone(),
                serde_json::json!({"assert_minimum_receive": {
                    "asset_info": asset, "prev_balance": "0", "minimum_receive": "0", "receiver": stranger
                }}).to_string(),
            ));
        }
        let (target, msg) = self.rng.pick(&cands).clone();
        let (need, _name) = classify(&m, &target, &msg)?;
        // roles to play
        let mut roles: Vec<AddrRef> = vec![
            AddrRef::Actor(stranger.clone()),
            AddrRef::Rogue,
            AddrRef::Router,
            AddrRef::Factory,
        ];
        for f in &m.former_owners {
            roles.push(AddrRef::Actor(f.clone()));
        }
        for i in 0..np.min(3) {
            roles.push(AddrRef::Pair(i));
            roles.push(AddrRef::Lp(i));
        }
        for t in 0..m.tokens.len() {
            roles.push(AddrRef::Token(t));
        }
        roles.push(AddrRef::Actor(m.owner.clone()));
        // look-alike addresses of the privileged callers
        for a in [m.owner.clone(), m.factory.clone(), m.router.clone()] {
            roles.push(AddrRef::Raw(format!("{}0", a)));
            if a.len() > 3 {
                roles.push(AddrRef::Raw(a[..a.len() - 1].to_string()));
            }
        }
        for _ in 0..6 {
            let r = self.rng.pick(&roles).clone();
            let addr = m.addr(&r)?;
            if !satisfies(&m, &need, &addr) {
                // a few attacks carry funds (they must come back on rejection)
                let funds = if matches!(r, AddrRef::Actor(_)) && self.rng.chance(20, 100) {
                    m.denoms
                        .first()
                        .filter(|d| self.bal(&crate::ledger::native_key(d), &addr) > 0)
                        .map(|d| vec![Fund { denom: d.clone(), amount: u(1) }])
                        .unwrap_or_default()
                } else {
                    vec![]
                };
                self.cov.fault("F7_privileged_from_non_authorised");
                return Some(Proto {
                    sender: r,
                    pre: vec![],
                    op: Op::Raw { target: AddrRef::Raw(target), msg, funds },
                    note: "raw-attacker".into(),
                });
            }
        }
        None
    }

    // ------------------------------------------------------------------------ scheduling

    pub fn actor_tick(&mut self) {
        let w = self.profile.actors;
        let proto = match self.rng.weighted(&w) {
            0 => {
                let who = self.rng.pick(&["trader", "tradez", "trader", "lpone", "whale"]).to_string();
                self.gen_swap(&who, false)
            }
            1 => {
                let np = self.sim.model.pairs.len();
                if np == 0 { None } else { let i = self.rng.pick_idx(np); self.gen_provide(i, false) }
            }
            2 => self.gen_withdraw(),
            3 => self.gen_donation(),
            4 => {
                // the whale sometimes first skews a pool by a donation, then trades
                if self.rng.chance(15, 100) {
                    self.gen_donation()
                } else {
                    self.gen_swap("whale", true)
                }
            }
            5 => self.gen_adversary(),
            6 => self.gen_route(),
            7 => self.gen_owner(),
            _ => self.gen_raw_attack(),
        };
        if let Some(p) = proto {
            // adversarial adjacency: sandwich a pending victim transaction
            if self.ordering == 3 && !self.mempool.is_empty() && self.rng.chance(30, 100) {
                let vi = self.rng.pick_idx(self.mempool.len());
                let (at, ord) = (self.mempool[vi].deliver_at, self.mempool[vi].order);
                self.order_ctr += 1;
                self.cov.fault("F3_sandwich_adjacent");
                let before = self.rng.chance(50, 100);
                self.mempool.push(Pending {
                    deliver_at: at.max(self.tick),
                    order: if before { ord.saturating_sub(1) } else { ord + 1 },
                    born_delivered: self.delivered,
                    sender: p.sender,
                    op: p.op,
                    dry_run: false,
                    fail_at: None,
                    note: format!("{} sandwich", p.note),
                });
                return;
            }
            self.submit_proto(p);
        }
    }

    pub fn probe_tick(&mut self) {
        let w = self.profile.probes;
        if w.iter().all(|x| *x == 0) {
            return;
        }
        let np = self.sim.model.pairs.len();
        let kind = self.rng.weighted(&w);
        let prober = AddrRef::Actor("trader".into());
        match kind {
            0 if np > 0 => {
                // quotes: increasing offers, some on rounding boundaries
                let i = self.rng.pick_idx(np);
                let p = self.sim.model.pairs[i].clone();
                let k = self.rng.pick_idx(2);
                let (r0, r1, _) = self.pair_state(i);
                let r = [r0, r1];
                let (x, y) = (r[k], r[1 - k]);
                let mut amounts: Vec<u128> = vec![1, 2];
                for _ in 0..3 {
                    amounts.push(self.rng.log_uniform(100));
                }
                amounts.push(x.max(1));
                amounts.push(x.saturating_add(1));
                for _ in 0..3 {
                    let v = self.structured(u128::MAX >> 2);
                    amounts.push(v);
                }
                amounts.push((x / 2).max(1));
                for _ in 0..2 {
                    if let Some((a, _)) = self.directed_offer(x, y, u128::MAX >> 2) {
                        amounts.push(a);
                        amounts.push(a.saturating_add(1));
                        amounts.push(a.saturating_sub(1).max(1));
                    }
                }
                amounts.sort();
                amounts.dedup();
                self.deliver(
                    prober,
                    Op::Quote { pair: i, offer: p.refs[k].clone(), amounts: amounts.into_iter().map(u).collect() },
                    false,
                    None,
                    "probe quote".into(),
                );
            }
            1 if np > 0 => {
                let i = self.rng.pick_idx(np);
                let p = self.sim.model.pairs[i].clone();
                let k = self.rng.pick_idx(2);
                let who = self.random_actor();
                let b = self.bal(&p.keys[k], &who);
                if b == 0 {
                    return;
                }
                let (r0, r1, _) = self.pair_state(i);
                let x = [r0, r1][k];
                let a = self.amount_upto(b.min(x.saturating_mul(3).max(1)));
                let guarded = self.rng.weighted(&[50, 20, 30]) as u8;
                self.deliver(
                    AddrRef::Actor(who),
                    Op::QuoteThenSwap { pair: i, offer: AssetAmt { asset: p.refs[k].clone(), amount: u(a) }, guarded },
                    false,
                    None,
                    "probe quote-then-swap".into(),
                );
            }
            2 if np > 0 => {
                let i = self.rng.pick_idx(np);
                let p = self.sim.model.pairs[i].clone();
                let k = self.rng.pick_idx(2);
                let (r0, r1, _) = self.pair_state(i);
                let y = [r0, r1][k];
                if y == 0 {
                    return;
                }
                let ask = match self.rng.weighted(&[10, 30, 30, 10, 20]) {
                    0 => 1,
                    1 => self.rng.range128(1, (y / 1000).max(1)),
                    2 => self.rng.range128((y / 100).max(1), (y / 2).max(1)),
                    3 => y - 1,
                    _ => self.rng.range128(1, y),
                };
                self.deliver(
                    prober,
                    Op::ReverseQuote { pair: i, ask: AssetAmt { asset: p.refs[k].clone(), amount: u(ask.max(1)) } },
                    false,
                    None,
                    "probe reverse-quote".into(),
                );
            }
            3 if np > 0 => {
                if let Some(hops) = self.random_path(4) {
                    let reverse = self.rng.chance(40, 100);
                    let amount = self.rng.log_uniform(70);
                    self.deliver(
                        prober,
                        Op::RouterQuote { hops, amount: u(amount), reverse },
                        false,
                        None,
                        "probe router-quote".into(),
                    );
                }
            }
            4 => {
                let limit = match self.rng.weighted(&[20, 60, 20]) {
                    0 => None,
                    1 => Some(self.rng.range(1, 40) as u32),
                    _ => Some(*self.rng.pick(&[1u32, 2, 3, 9, 10, 11, 29, 30, 31, 40])),
                };
                let flip = self.rng.chance(35, 100);
                self.deliver(prober, Op::Walk { limit, flip }, false, None, "probe walk".into());
            }
            5 => {
                self.deliver(prober, Op::AuthMatrix {}, false, None, "probe auth-matrix".into());
            }
            6 if np > 0 => {
                // withdrawal probes for every holder of a random pair
                let i = self.rng.pick_idx(np);
                let lpk = self.sim.model.pairs[i].lp_key();
                let holders: Vec<String> = self.sim.model.actors.clone();
                for h in holders {
                    let b = self.bal(&lpk, &h);
                    if b == 0 {
                        continue;
                    }
                    let mut amts = vec![1, (b / 3).max(1), b];
                    amts.dedup();
                    for a in amts {
                        self.deliver(
                            AddrRef::Actor(h.clone()),
                            Op::Withdraw { pair: i, amount: u(a) },
                            true,
                            None,
                            "probe withdraw".into(),
                        );
                    }
                }
            }
            7 if np > 0 => {
                // boundary provisions as one atomic approve+provide dry-run
                let i = self.rng.pick_idx(np);
                if let Some(p) = self.gen_provide(i, false) {
                    let mut ops: Vec<Op> = p.pre.into_iter().map(|(_, o)| o).collect();
                    ops.push(p.op);
                    // Batch hides the provide from the per-op oracles, so deliver separately as dry-runs
                    // is impossible (approval must persist); use the batch for C03/C07 only
                    self.deliver(p.sender, Op::Batch(ops), true, None, "probe provide-batch".into());
                }
            }
            8 => {
                self.deliver(prober, Op::AuditRegistry {}, false, None, "probe audit-registry".into());
            }
            9 => self.crash_enumeration(),
            _ => {}
        }
    }

    /// F4: take one multi-message transaction, learn its number of dispatches on a dry-run,
    /// then fail each message in turn on the same snapshot.
    pub fn crash_enumeration(&mut self) {
        let proto = match self.rng.weighted(&[35, 25, 20, 10, 10]) {
            0 => self.gen_route(),
            1 => self.gen_swap("trader", false),
            2 => {
                let np = self.sim.model.pairs.len();
                if np == 0 { None } else { let i = self.rng.pick_idx(np); self.gen_provide(i, false) }
            }
            3 => self.gen_withdraw(),
            _ => self.gen_owner(),
        };
        let p = match proto {
            Some(p) => p,
            None => return,
        };
        // approvals (if any) are delivered for real so the main op can run
        for (s, o) in p.pre {
            self.deliver(s, o, false, None, format!("{} crash-enum-pre", p.note));
        }
        let sender_addr = match self.sim.model.addr(&p.sender) {
            Some(a) => a,
            None => return,
        };
        let (out, _d, trace) = self.sim.dry_run(&sender_addr, &p.op, None);
        if !out.is_ok() || trace.is_empty() {
            return;
        }
        let nmsg = trace.len().min(24) as u32;
        for j in 1..=nmsg {
            self.cov.fault("F4_crash_point_enumerated");
            self.deliver(p.sender.clone(), p.op.clone(), true, Some(j), format!("{} crash-enum {}/{}", p.note, j, nmsg));
        }
    }

    pub fn final_audits(&mut self) {
        let prober = AddrRef::Actor("trader".into());
        self.deliver(prober.clone(), Op::AuditRegistry {}, false, None, "final audit-registry".into());
        if self.profile.probes[4] > 0 {
            self.deliver(prober.clone(), Op::Walk { limit: None, flip: false }, false, None, "final walk".into());
            let l = self.rng.range(1, 40) as u32;
            let flip = self.rng.chance(50, 100);
            self.deliver(prober.clone(), Op::Walk { limit: Some(l), flip }, false, None, "final walk".into());
        }
        if self.profile.probes[5] > 0 {
            self.deliver(prober.clone(), Op::AuthMatrix {}, false, None, "final auth-matrix".into());
        }
        if self.profile.probes[6] > 0 {
            // every holder of every pair can still withdraw
            let np = self.sim.model.pairs.len();
            for i in 0..np.min(6) {
                let lpk = self.sim.model.pairs[i].lp_key();
                for h in self.sim.model.actors.clone() {
                    let b = self.bal(&lpk, &h);
                    if b > 0 {
                        self.deliver(AddrRef::Actor(h), Op::Withdraw { pair: i, amount: u(b) }, true, None, "final withdraw-probe".into());
                    }
                }
            }
        }
    }
}
