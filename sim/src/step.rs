//! One simulation step: execute a concrete event, decode what it committed, run every
//! oracle on it, then keep or roll back its effects and update the reference model.

use std::collections::BTreeMap;

use cosmwasm_std::Uint128;
use cw_multi_test::AppResponse;
use haloswap::asset::AssetInfo;

use crate::bignat::N;
use crate::cover::Cover;
use crate::ledger::{cw20_key, native_key, Delta, View};
use crate::ops::*;
use crate::sim::*;
use crate::world::{Dispatch, CODE_CW20, CODE_PAIR, CODE_PAIR_V2};

/// observations taken in the pre-state, needed by some oracles
#[derive(Default, Clone, Debug)]
pub struct PreObs {
    /// asset_decimals the pair itself reports (pair index -> decimals)
    pub pair_decimals: BTreeMap<usize, [u8; 2]>,
    /// router quote for the route of this event
    pub route_quote: Option<Result<u128, String>>,
}

pub struct Ctx<'a> {
    pub ev: &'a Event,
    pub sender: &'a str,
    pub outcome: &'a Outcome,
    pub view: View<'a>,
    pub model: &'a Model,
    pub trace: &'a [Dispatch],
    pub injected: bool,
    pub pre: &'a PreObs,
}

#[derive(Clone, Debug)]
pub struct StepOut {
    pub outcome_tag: &'static str,
    pub err: String,
    pub dispatches: usize,
    pub writes: usize,
}

/// all `wasm` events emitted by `contract` carrying action=`action`, as key->value maps
pub fn wasm_attrs(resps: &[AppResponse], contract: &str, action: &str) -> Vec<BTreeMap<String, String>> {
    let mut out = vec![];
    for r in resps {
        for e in &r.events {
            if e.ty != "wasm" {
                continue;
            }
            let m: BTreeMap<String, String> = e
                .attributes
                .iter()
                .map(|a| (a.key.clone(), a.value.clone()))
                .collect();
            if m.get("_contract_addr").map(|s| s.as_str()) == Some(contract)
                && m.get("action").map(|s| s.as_str()) == Some(action)
            {
                out.push(m);
            }
        }
    }
    out
}

pub fn attr_u128(m: &BTreeMap<String, String>, k: &str) -> Option<u128> {
    m.get(k).and_then(|s| s.parse::<u128>().ok())
}

pub fn ok_dispatches<'a>(trace: &'a [Dispatch], target: &str, kinds: &[&str]) -> Vec<&'a Dispatch> {
    trace
        .iter()
        .filter(|d| d.ok && d.target == target && kinds.contains(&d.kind.as_str()))
        .collect()
}

pub const SWAP_KINDS: [&str; 2] = ["exec:swap", "exec:receive:swap"];
pub const PROVIDE_KINDS: [&str; 1] = ["exec:provide_liquidity"];
pub const WITHDRAW_KINDS: [&str; 1] = ["exec:receive:withdraw_liquidity"];

impl Sim {
    pub fn reserves_pre(&self, p: &PairModel) -> (u128, u128, u128) {
        (
            self.ledger.get(&p.keys[0], &p.addr),
            self.ledger.get(&p.keys[1], &p.addr),
            self.ledger.supply_of(&p.lp_key()),
        )
    }

    fn pre_observe(&self, ev: &Event, _sender: &str) -> PreObs {
        let mut pre = PreObs::default();
        let mut want_pair = |i: usize, pre: &mut PreObs| {
            if let Some(p) = self.model.pairs.get(i) {
                if let Ok(info) = self.query::<haloswap::asset::PairInfo, _>(
                    &p.addr,
                    &haloswap::pair::QueryMsg::Pair {},
                ) {
                    pre.pair_decimals.insert(i, info.asset_decimals);
                }
            }
        };
        match &ev.op {
            Op::SwapExec {
                pair, max_spread, ..
            }
            | Op::SwapHook {
                pair, max_spread, ..
            } => {
                if max_spread.is_some() {
                    want_pair(*pair, &mut pre);
                }
            }
            Op::RouteExec { hops, funds, .. } => {
                if let Some(h0) = hops.first() {
                    if let AssetRef::Native(d) = &h0.offer {
                        let input: u128 = funds
                            .iter()
                            .filter(|f| &f.denom == d)
                            .map(|f| f.amount.u128())
                            .sum();
                        pre.route_quote = Some(self.router_quote(hops, input, false));
                    }
                }
            }
            Op::RouteHook { hops, sent, .. } => {
                pre.route_quote = Some(self.router_quote(hops, sent.u128(), false));
            }
            _ => {}
        }
        pre
    }

    pub fn router_quote(&self, hops: &[Hop], amount: u128, reverse: bool) -> Result<u128, String> {
        let ops: Result<Vec<_>, String> = hops
            .iter()
            .map(|h| {
                Ok(haloswap::router::SwapOperation::HaloSwap {
                    offer_asset_info: self.model.asset_info(&h.offer).ok_or("dangling")?,
                    ask_asset_info: self.model.asset_info(&h.ask).ok_or("dangling")?,
                })
            })
            .collect();
        let ops = ops?;
        let msg = if reverse {
            haloswap::router::QueryMsg::ReverseSimulateSwapOperations {
                ask_amount: Uint128::new(amount),
                operations: ops,
            }
        } else {
            haloswap::router::QueryMsg::SimulateSwapOperations {
                offer_amount: Uint128::new(amount),
                operations: ops,
            }
        };
        self.query::<haloswap::router::SimulateSwapOperationsResponse, _>(&self.model.router, &msg)
            .map(|r| r.amount.u128())
    }

    /// Execute one event with all oracles. Violations and coverage go to `cov`.
    pub fn step(&mut self, ev: &Event, cov: &mut Cover) -> StepOut {
        self.set_clock(ev.t, ev.height);
        let sender = match self.model.addr(&ev.sender) {
            Some(s) => s,
            None => {
                cov.tx(ev.op.kind(), "skip");
                return StepOut {
                    outcome_tag: "skip",
                    err: "dangling sender".into(),
                    dispatches: 0,
                    writes: 0,
                };
            }
        };
        if ev.op.is_audit() {
            return self.audit(ev, &sender, cov);
        }
        let msgs = match self.build_msgs(&sender, &ev.op) {
            Ok(m) => m,
            Err(e) => {
                cov.tx(ev.op.kind(), "skip");
                return StepOut {
                    outcome_tag: "skip",
                    err: e,
                    dispatches: 0,
                    writes: 0,
                };
            }
        };
        // a batch of approvals followed by one operation is judged as that operation
        let orig_op: &Op = &ev.op;
        let simplified;
        let ev: &Event = match &ev.op {
            Op::Batch(ops)
                if !ops.is_empty()
                    && ops[..ops.len() - 1].iter().all(|o| matches!(o, Op::Approve { .. }))
                    && !matches!(ops[ops.len() - 1], Op::Batch(_)) =>
            {
                simplified = Event {
                    op: ops[ops.len() - 1].clone(),
                    ..ev.clone()
                };
                &simplified
            }
            _ => ev,
        };
        let pre = self.pre_observe(ev, &sender);
        let r = self.exec_tx(&sender, msgs, ev.fail_at);
        let delta = self.ledger.decode(&r.journal);
        if r.injected {
            cov.fault("F4_message_failure_injected");
        }
        cov.tx(ev.op.kind(), r.outcome.tag());
        {
            let ctx = Ctx {
                ev,
                sender: &sender,
                outcome: &r.outcome,
                view: View {
                    ledger: &self.ledger,
                    delta: &delta,
                },
                model: &self.model,
                trace: &r.trace,
                injected: r.injected,
                pre: &pre,
            };
            crate::orc_pair::run(&ctx, cov);
            crate::orc_router::run(&ctx, cov);
            crate::orc_guard::run(&ctx, cov);
            crate::orc_factory::run_tx(&ctx, cov);
        }
        // oracles that need further dry-runs in the (unchanged) pre-state of a failed step
        if r.outcome.failed() && !r.injected {
            crate::orc_guard::differential(self, ev, orig_op, &sender, &pre, cov);
        }
        let out = StepOut {
            outcome_tag: r.outcome.tag(),
            err: r.outcome.err_text(),
            dispatches: r.trace.len(),
            writes: r.journal.len(),
        };
        if ev.dry_run {
            self.chain.store.undo(&r.journal);
        } else {
            self.ledger.apply(&delta);
            if r.outcome.is_ok() {
                self.update_model(ev, &sender, &delta);
                if matches!(
                    ev.op,
                    Op::CreatePair { .. } | Op::AddNativeDecimals { .. } | Op::MigratePair { .. } | Op::Raw { .. } | Op::UpdateConfig { .. } | Op::Migrate { .. }
                ) {
                    // the audit is O(pairs): on very large registries run it on every tenth creation
                    // (and on every decimals update / migration / raw message)
                    let n = self.model.pairs.len();
                    if n <= 40 || n % 10 == 0 || !matches!(ev.op, Op::CreatePair { .. }) {
                        crate::orc_factory::audit_registry(self, ev.seq, cov);
                    }
                }
            }
        }
        out
    }

    /// follow what a successful transaction did to the deployment (new pairs, decimals, owner)
    fn update_model(&mut self, ev: &Event, _sender: &str, delta: &Delta) {
        self.update_model_op(&ev.op, delta);
    }

    /// a raw JSON message that the factory accepted has the same effect on the deployment as
    /// its typed form (a stale raw "attack" can be delivered after its sender became owner)
    fn raw_factory_as_typed(&self, target: &AddrRef, msg: &str) -> Option<Op> {
        if self.model.addr(target)? != self.model.factory {
            return None;
        }
        let m: haloswap::factory::ExecuteMsg = serde_json::from_str(msg).ok()?;
        let asset_ref = |i: &AssetInfo| -> AssetRef {
            match i {
                AssetInfo::NativeToken { denom } => AssetRef::Native(denom.clone()),
                AssetInfo::Token { contract_addr } => {
                    match self.model.tokens.iter().position(|t| t == contract_addr) {
                        Some(k) => AssetRef::Token(k),
                        None => match self.model.pairs.iter().position(|p| p.lp == *contract_addr) {
                            Some(k) => AssetRef::Lp(k),
                            None => AssetRef::Raw(contract_addr.clone()),
                        },
                    }
                }
            }
        };
        Some(match m {
            haloswap::factory::ExecuteMsg::UpdateConfig {
                owner,
                token_code_id,
                pair_code_id,
            } => Op::UpdateConfig {
                owner: owner.map(AddrRef::Raw),
                token_code_id,
                pair_code_id,
            },
            haloswap::factory::ExecuteMsg::AddNativeTokenDecimals { denom, decimals } => {
                Op::AddNativeDecimals { denom, decimals }
            }
            haloswap::factory::ExecuteMsg::CreatePair {
                asset_infos,
                requirements,
                commission_rate,
                lp_token_info,
            } => Op::CreatePair {
                assets: [asset_ref(&asset_infos[0]), asset_ref(&asset_infos[1])],
                whitelist: requirements
                    .whitelist
                    .iter()
                    .map(|a| AddrRef::Raw(a.to_string()))
                    .collect(),
                min0: requirements.first_asset_minimum,
                min1: requirements.second_asset_minimum,
                commission: commission_rate.map(|c| c.to_string()),
                lp_decimals: lp_token_info.lp_token_decimals,
            },
            haloswap::factory::ExecuteMsg::MigratePair { .. } => return None,
        })
    }

    fn update_model_op(&mut self, op: &Op, delta: &Delta) {
        match op {
            Op::Batch(ops) => {
                for o in ops {
                    self.update_model_op(o, delta);
                }
            }
            Op::Raw { target, msg, .. } => {
                if let Some(typed) = self.raw_factory_as_typed(target, msg) {
                    self.update_model_op(&typed, delta);
                }
            }
            Op::CreatePair {
                assets,
                whitelist,
                min0,
                min1,
                commission,
                lp_decimals,
            } => {
                // new contracts registered by this transaction: pair (creator = factory) and
                // its LP token (creator = the pair)
                let mut pair_addr = None;
                let mut lp_addr = None;
                for (old, new) in &delta.contracts {
                    if let (None, Some(m)) = (old, new) {
                        if (m.code_id == CODE_PAIR || m.code_id == CODE_PAIR_V2)
                            && m.creator == self.model.factory
                        {
                            pair_addr = Some(m.addr.clone());
                        } else if m.code_id == CODE_CW20 {
                            lp_addr = Some(m.addr.clone());
                        }
                    }
                }
                if let (Some(addr), Some(lp)) = (pair_addr, lp_addr) {
                    let infos = [
                        self.model.asset_info(&assets[0]).unwrap(),
                        self.model.asset_info(&assets[1]).unwrap(),
                    ];
                    let decimals = [
                        self.model.expected_decimals(&assets[0]).unwrap_or(255),
                        self.model.expected_decimals(&assets[1]).unwrap_or(255),
                    ];
                    let commission = match commission {
                        None => dec_str_atoms("0.003").unwrap(),
                        Some(s) => dec_str_atoms(s).unwrap_or_else(N::zero),
                    };
                    let pm = PairModel {
                        addr,
                        lp,
                        keys: [info_key(&infos[0]), info_key(&infos[1])],
                        infos,
                        refs: [assets[0].clone(), assets[1].clone()],
                        decimals,
                        commission,
                        whitelist: whitelist
                            .iter()
                            .filter_map(|w| self.model.addr(w))
                            .collect(),
                        mins: [min0.u128(), min1.u128()],
                        lp_decimals: lp_decimals.unwrap_or(6),
                        standard: assets.iter().all(|a| match a {
                            AssetRef::Raw(addr) => self.ledger.cw20s.contains(addr),
                            _ => true,
                        }),
                    };
                    self.model.pairs.push(pm);
                }
            }
            Op::AddNativeDecimals { denom, decimals } => {
                let existed = self.model.natives.contains_key(denom);
                self.model.natives.insert(denom.clone(), *decimals);
                if existed {
                    let key = native_key(denom);
                    for p in self.model.pairs.iter_mut() {
                        for i in 0..2 {
                            if p.keys[i] == key {
                                p.decimals[i] = *decimals;
                            }
                        }
                    }
                }
            }
            Op::UpdateConfig {
                owner,
                token_code_id,
                pair_code_id,
            } => {
                if let Some(o) = owner {
                    if let Some(a) = self.model.addr(o) {
                        // MockApi canonicalisation lower-cases; our addresses are lower-case
                        if a != self.model.owner {
                            let old = std::mem::replace(&mut self.model.owner, a);
                            self.model.former_owners.push(old);
                        }
                    }
                }
                if let Some(t) = token_code_id {
                    self.model.token_code_id = *t;
                }
                if let Some(p) = pair_code_id {
                    self.model.pair_code_id = *p;
                }
            }
            _ => {}
        }
    }
}

pub fn cw20_or_native_key(i: &AssetInfo) -> String {
    match i {
        AssetInfo::NativeToken { denom } => native_key(denom),
        AssetInfo::Token { contract_addr } => cw20_key(contract_addr),
    }
}
