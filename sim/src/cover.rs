//! Violations, coverage counters and reach probes collected while runs proceed.

use std::collections::{BTreeMap, BTreeSet};

use serde::{Deserialize, Serialize};

#[derive(Clone, Debug, Serialize, Deserialize, PartialEq)]
pub struct Violation {
    pub prop: String,
    pub clause: String,
    /// cause class (a predicate over the observed step), used to match known findings
    pub cause: String,
    pub seq: u64,
    pub detail: String,
}

impl Violation {
    pub fn class(&self) -> String {
        format!("{}/{}/{}", self.prop, self.clause, self.cause)
    }
}

pub fn fnv(s: &str) -> u64 {
    let mut h: u64 = 0xcbf29ce484222325;
    for b in s.bytes() {
        h ^= b as u64;
        h = h.wrapping_mul(0x100000001b3);
    }
    h
}

#[derive(Clone, Debug, Default)]
pub struct Cover {
    /// oracle evaluations whose precondition held, per "Cxx.clause"
    pub evals: BTreeMap<String, u64>,
    /// distinct abstract cases per property (hashes of the case tuple)
    pub cases: BTreeMap<String, BTreeSet<u64>>,
    /// a few written-out abstract cases per property
    pub case_samples: BTreeMap<String, Vec<String>>,
    /// rare-condition probes
    pub reach: BTreeMap<String, u64>,
    /// fault kinds that actually fired
    pub faults: BTreeMap<String, u64>,
    /// delivered transactions per (op kind, outcome)
    pub txs: BTreeMap<String, u64>,
    pub violations: Vec<Violation>,
}

impl Cover {
    pub fn eval(&mut self, prop: &str, clause: &str) {
        *self.evals.entry(format!("{}.{}", prop, clause)).or_insert(0) += 1;
    }
    pub fn case(&mut self, prop: &str, tuple: String) {
        let h = fnv(&tuple);
        let set = self.cases.entry(prop.to_string()).or_default();
        if set.insert(h) {
            let s = self.case_samples.entry(prop.to_string()).or_default();
            if s.len() < 6 {
                s.push(tuple);
            }
        }
    }
    pub fn reach(&mut self, name: &str) {
        *self.reach.entry(name.to_string()).or_insert(0) += 1;
    }
    pub fn fault(&mut self, name: &str) {
        *self.faults.entry(name.to_string()).or_insert(0) += 1;
    }
    pub fn tx(&mut self, kind: &str, outcome: &str) {
        *self.txs.entry(format!("{}:{}", kind, outcome)).or_insert(0) += 1;
    }
    pub fn violate(&mut self, prop: &str, clause: &str, cause: &str, seq: u64, detail: String) {
        self.violations.push(Violation {
            prop: prop.to_string(),
            clause: clause.to_string(),
            cause: cause.to_string(),
            seq,
            detail,
        });
    }
    pub fn merge(&mut self, o: &Cover) {
        for (k, v) in &o.evals {
            *self.evals.entry(k.clone()).or_insert(0) += v;
        }
        for (k, v) in &o.cases {
            self.cases.entry(k.clone()).or_default().extend(v.iter());
        }
        for (k, v) in &o.case_samples {
            let s = self.case_samples.entry(k.clone()).or_default();
            for x in v {
                if s.len() < 6 && !s.contains(x) {
                    s.push(x.clone());
                }
            }
        }
        for (k, v) in &o.reach {
            *self.reach.entry(k.clone()).or_insert(0) += v;
        }
        for (k, v) in &o.faults {
            *self.faults.entry(k.clone()).or_insert(0) += v;
        }
        for (k, v) in &o.txs {
            *self.txs.entry(k.clone()).or_insert(0) += v;
        }
    }
}

pub fn lg(v: u128) -> u32 {
    128 - v.leading_zeros()
}
