//! Concrete, replayable events. Generation fills in every field; replay never re-derives
//! anything from the PRNG.

use cosmwasm_std::{Decimal, Uint128};
use serde::{Deserialize, Serialize};

#[derive(Serialize, Deserialize, Clone, Debug, PartialEq, Eq, PartialOrd, Ord)]
#[serde(rename_all = "snake_case")]
pub enum AddrRef {
    Actor(String),
    Factory,
    Router,
    Pair(usize),
    Lp(usize),
    Token(usize),
    Rogue,
    Raw(String),
}

#[derive(Serialize, Deserialize, Clone, Debug, PartialEq, Eq, PartialOrd, Ord)]
#[serde(rename_all = "snake_case")]
pub enum AssetRef {
    Native(String),
    Token(usize),
    Lp(usize),
    /// a cw20 named by a literal address (foreign / dead / rogue)
    Raw(String),
}

#[derive(Serialize, Deserialize, Clone, Debug, PartialEq)]
pub struct AssetAmt {
    pub asset: AssetRef,
    pub amount: Uint128,
}

#[derive(Serialize, Deserialize, Clone, Debug, PartialEq)]
pub struct Fund {
    pub denom: String,
    pub amount: Uint128,
}

#[derive(Serialize, Deserialize, Clone, Debug, PartialEq)]
#[serde(rename_all = "snake_case")]
pub enum Expiry {
    Never,
    AtHeight(u64),
    AtTime(u64),
}

#[derive(Serialize, Deserialize, Clone, Debug, PartialEq)]
#[serde(rename_all = "snake_case")]
pub enum Via {
    Cw20(AssetRef),
    Rogue,
}

#[derive(Serialize, Deserialize, Clone, Debug, PartialEq)]
pub struct Hop {
    pub offer: AssetRef,
    pub ask: AssetRef,
}

#[derive(Serialize, Deserialize, Clone, Debug, PartialEq)]
#[serde(rename_all = "snake_case")]
pub enum Op {
    Transfer {
        asset: AssetRef,
        to: AddrRef,
        amount: Uint128,
    },
    Approve {
        token: AssetRef,
        spender: AddrRef,
        amount: Uint128,
        expires: Expiry,
    },
    Provide {
        pair: usize,
        assets: [AssetAmt; 2],
        funds: Vec<Fund>,
        slippage: Option<Decimal>,
        receiver: Option<AddrRef>,
    },
    Withdraw {
        pair: usize,
        amount: Uint128,
    },
    SwapExec {
        pair: usize,
        offer: AssetAmt,
        funds: Vec<Fund>,
        belief: Option<Decimal>,
        max_spread: Option<Decimal>,
        to: Option<AddrRef>,
    },
    SwapHook {
        pair: usize,
        via: Via,
        sent: Uint128,
        offer: AssetAmt,
        belief: Option<Decimal>,
        max_spread: Option<Decimal>,
        to: Option<AddrRef>,
        /// allowance-based entry: the sender spends this account's tokens (cw20 SendFrom)
        #[serde(default, skip_serializing_if = "Option::is_none")]
        from: Option<AddrRef>,
    },
    RouteExec {
        hops: Vec<Hop>,
        funds: Vec<Fund>,
        min_receive: Option<Uint128>,
        to: Option<AddrRef>,
    },
    RouteHook {
        via: AssetRef,
        sent: Uint128,
        hops: Vec<Hop>,
        min_receive: Option<Uint128>,
        to: Option<AddrRef>,
    },
    CreatePair {
        assets: [AssetRef; 2],
        whitelist: Vec<AddrRef>,
        min0: Uint128,
        min1: Uint128,
        commission: Option<String>,
        lp_decimals: Option<u8>,
    },
    AddNativeDecimals {
        denom: String,
        decimals: u8,
    },
    UpdateConfig {
        owner: Option<AddrRef>,
        token_code_id: Option<u64>,
        pair_code_id: Option<u64>,
    },
    MigratePair {
        pair: AddrRef,
        code_id: Option<u64>,
    },
    /// chain-level migration of a contract by its admin (the owner is admin of factory and router)
    Migrate {
        target: AddrRef,
        code_id: u64,
    },
    /// any JSON message to any contract
    Raw {
        target: AddrRef,
        msg: String,
        funds: Vec<Fund>,
    },
    /// several operations in one atomic transaction
    Batch(Vec<Op>),

    // ---- audits and probes: queries / dry-runs evaluated by the oracles -----------------
    /// pair Simulation for a list of increasing offers (C06, monotonicity)
    Quote {
        pair: usize,
        offer: AssetRef,
        amounts: Vec<Uint128>,
    },
    /// pair Simulation, then dry-run of the same swap by the sender (C12.a)
    QuoteThenSwap {
        pair: usize,
        offer: AssetAmt,
        /// 0: plain swap; 1: with max_spread = 1; 2: with belief_price = quoted price and
        /// max_spread = 0.5 (guards that cannot reject the quoted trade)
        #[serde(default)]
        guarded: u8,
    },
    /// pair ReverseSimulation (C12.b/c)
    ReverseQuote {
        pair: usize,
        ask: AssetAmt,
    },
    /// router (reverse) simulation vs hop-by-hop fold of pair queries (C12.d/e)
    RouterQuote {
        hops: Vec<Hop>,
        amount: Uint128,
        reverse: bool,
    },
    /// walk the factory's pair list with this page size (C19)
    Walk {
        limit: Option<u32>,
        /// pass the continuation cursor with its two assets in the reversed order
        #[serde(default)]
        flip: bool,
    },
    /// factory registry vs pairs vs model (C16, C17)
    AuditRegistry {},
    /// full caller matrix of privileged / internal entry points, each cell a dry-run (C14)
    AuthMatrix {},
}

#[derive(Serialize, Deserialize, Clone, Debug, PartialEq)]
pub struct Event {
    pub seq: u64,
    /// simulated time in seconds since the start block
    pub t: u64,
    pub height: u64,
    pub sender: AddrRef,
    pub op: Op,
    #[serde(default, skip_serializing_if = "is_false")]
    pub dry_run: bool,
    /// F4: fail the n-th dispatched message of this transaction
    #[serde(default, skip_serializing_if = "Option::is_none")]
    pub fail_at: Option<u32>,
    /// generator annotations (actor kind, fault kinds, staleness). Not read by the oracles.
    #[serde(default, skip_serializing_if = "String::is_empty")]
    pub note: String,
}

fn is_false(b: &bool) -> bool {
    !*b
}

impl Op {
    pub fn kind(&self) -> &'static str {
        match self {
            Op::Transfer { .. } => "transfer",
            Op::Approve { .. } => "approve",
            Op::Provide { .. } => "provide",
            Op::Withdraw { .. } => "withdraw",
            Op::SwapExec { .. } => "swap_exec",
            Op::SwapHook { .. } => "swap_hook",
            Op::RouteExec { .. } => "route_exec",
            Op::RouteHook { .. } => "route_hook",
            Op::CreatePair { .. } => "create_pair",
            Op::AddNativeDecimals { .. } => "add_native_decimals",
            Op::UpdateConfig { .. } => "update_config",
            Op::MigratePair { .. } => "migrate_pair",
            Op::Raw { .. } => "raw",
            Op::Migrate { .. } => "migrate",
            Op::Batch(_) => "batch",
            Op::Quote { .. } => "quote",
            Op::QuoteThenSwap { .. } => "quote_then_swap",
            Op::ReverseQuote { .. } => "reverse_quote",
            Op::RouterQuote { .. } => "router_quote",
            Op::Walk { .. } => "walk",
            Op::AuditRegistry {} => "audit_registry",
            Op::AuthMatrix {} => "auth_matrix",
        }
    }
    pub fn is_audit(&self) -> bool {
        matches!(
            self,
            Op::Quote { .. }
                | Op::QuoteThenSwap { .. }
                | Op::ReverseQuote { .. }
                | Op::RouterQuote { .. }
                | Op::Walk { .. }
                | Op::AuditRegistry {}
                | Op::AuthMatrix {}
        )
    }
}

// ---------------------------------------------------------------------------------------
// World configuration: what exists before the first event.
// ---------------------------------------------------------------------------------------

#[derive(Serialize, Deserialize, Clone, Debug, PartialEq)]
pub struct TokenCfg {
    pub decimals: u8,
}

#[derive(Serialize, Deserialize, Clone, Debug, PartialEq)]
pub struct ActorCfg {
    pub name: String,
    /// native balances
    pub natives: Vec<Fund>,
    /// balance of token i
    pub tokens: Vec<Uint128>,
}

#[derive(Serialize, Deserialize, Clone, Debug, PartialEq)]
pub struct WorldCfg {
    pub denoms: Vec<String>,
    pub tokens: Vec<TokenCfg>,
    pub actors: Vec<ActorCfg>,
    /// actors that hold balances and allowances but never act
    pub bystanders: Vec<String>,
    pub owner: String,
}
