//! Factory / authorisation oracles: C14 (callers), C16 (registry), C17 (decimals
//! propagation). The pagination walk (C19) and the caller matrix live in audit.rs.

use cosmwasm_std::Binary;
use haloswap::asset::{AssetInfo, PairInfo};

use crate::cover::Cover;
use crate::ops::*;
use crate::sim::*;
use crate::step::*;

#[derive(Debug, Clone, PartialEq)]
pub enum Need {
    Owner,
    Factory,
    LpOf(usize),
    AssetOf(usize),
    RouterSelf,
    /// a message shape that no caller may get through (e.g. an internal message smuggled
    /// inside a cw20 Receive wrapper)
    Nobody,
}

/// Which caller a message to `target` requires, or None when it is not privileged/internal.
pub fn classify(model: &Model, target: &str, msg: &str) -> Option<(Need, String)> {
    let v: serde_json::Value = serde_json::from_str(msg).ok()?;
    let obj = v.as_object()?;
    let (variant, body) = obj.iter().next()?;
    if target == model.factory {
        return match variant.as_str() {
            "update_config" | "create_pair" | "add_native_token_decimals" | "migrate_pair" => {
                Some((Need::Owner, format!("factory.{}", variant)))
            }
            _ => None,
        };
    }
    if target == model.router {
        if variant == "receive" {
            // the only legitimate hook payload is execute_swap_operations
            let inner = body.get("msg")?.as_str()?;
            let bin = Binary::from_base64(inner).ok()?;
            let iv: serde_json::Value = serde_json::from_slice(bin.as_slice()).ok()?;
            let (hook, _) = iv.as_object()?.iter().next()?;
            return match hook.as_str() {
                "execute_swap_operation" | "assert_minimum_receive" => {
                    Some((Need::Nobody, format!("router.receive[{}]", hook)))
                }
                _ => None,
            };
        }
        return match variant.as_str() {
            "execute_swap_operation" | "assert_minimum_receive" => {
                Some((Need::RouterSelf, format!("router.{}", variant)))
            }
            _ => None,
        };
    }
    if let Some(pi) = model.pair_by_addr(target) {
        match variant.as_str() {
            "update_native_token_decimals" => {
                return Some((Need::Factory, "pair.update_native_token_decimals".into()))
            }
            "receive" => {
                let inner = body.get("msg")?.as_str()?;
                let bin = Binary::from_base64(inner).ok()?;
                let iv: serde_json::Value = serde_json::from_slice(bin.as_slice()).ok()?;
                let (hook, _) = iv.as_object()?.iter().next()?;
                return match hook.as_str() {
                    "update_native_token_decimals" | "provide_liquidity" => {
                        Some((Need::Nobody, format!("pair.receive[{}]", hook)))
                    }
                    "withdraw_liquidity" => {
                        Some((Need::LpOf(pi), "pair.receive.withdraw_liquidity".into()))
                    }
                    "swap" => Some((Need::AssetOf(pi), "pair.receive.swap".into())),
                    _ => None,
                };
            }
            _ => return None,
        }
    }
    None
}

pub fn satisfies(model: &Model, need: &Need, sender: &str) -> bool {
    match need {
        Need::Owner => sender == model.owner,
        Need::Factory => sender == model.factory,
        Need::RouterSelf => sender == model.router,
        Need::Nobody => false,
        Need::LpOf(i) => model.pairs.get(*i).map_or(false, |p| p.lp == sender),
        Need::AssetOf(i) => model.pairs.get(*i).map_or(false, |p| {
            p.infos.iter().any(|a| match a {
                AssetInfo::Token { contract_addr } => contract_addr == sender,
                _ => false,
            })
        }),
    }
}

pub fn role_of(model: &Model, sender: &str) -> String {
    if sender == model.owner {
        "owner".into()
    } else if model.former_owners.iter().any(|o| o == sender) {
        "former-owner".into()
    } else if sender == model.factory {
        "factory".into()
    } else if sender == model.router {
        "router".into()
    } else if sender == model.rogue {
        "rogue".into()
    } else if model.pairs.iter().any(|p| p.addr == sender) {
        "pair".into()
    } else if model.pairs.iter().any(|p| p.lp == sender) {
        "lp-token".into()
    } else if model.tokens.iter().any(|t| t == sender) {
        "asset-token".into()
    } else if [&model.owner, &model.factory, &model.router]
        .iter()
        .any(|a| sender.starts_with(a.as_str()) || a.starts_with(sender))
    {
        "look-alike".into()
    } else {
        "stranger".into()
    }
}

/// C14 on delivered transactions + C16 creation rules
pub fn run_tx(ctx: &Ctx, cov: &mut Cover) {
    let m = ctx.model;
    // ---- C14 on typed factory operations
    let typed_priv = matches!(
        ctx.ev.op,
        Op::CreatePair { .. }
            | Op::AddNativeDecimals { .. }
            | Op::UpdateConfig { .. }
            | Op::MigratePair { .. }
    );
    if typed_priv {
        let authorised = ctx.sender == m.owner;
        cov.case(
            "C14",
            format!(
                "factory.{}|{}|{}|own{}",
                ctx.ev.op.kind(),
                role_of(m, ctx.sender),
                ctx.outcome.tag(),
                m.former_owners.len().min(2)
            ),
        );
        if !authorised {
            cov.eval("C14", "a");
            if ctx.outcome.is_ok() {
                cov.violate(
                    "C14",
                    "a",
                    "unauthorised-call-accepted",
                    ctx.ev.seq,
                    format!(
                        "factory {} from {} ({}) succeeded; owner is {}",
                        ctx.ev.op.kind(),
                        ctx.sender,
                        role_of(m, ctx.sender),
                        m.owner
                    ),
                );
            }
        } else if let Op::UpdateConfig { .. } = ctx.ev.op {
            // the owner's configuration update has no other precondition
            if !ctx.injected {
                cov.eval("C14", "b");
                if ctx.outcome.failed() {
                    cov.violate(
                        "C14",
                        "b",
                        "owner-rejected",
                        ctx.ev.seq,
                        format!("owner's update_config failed: {}", ctx.outcome.err_text()),
                    );
                }
            }
        }
    }
    // ---- C14 on raw messages
    if let Op::Raw { target, msg, .. } = &ctx.ev.op {
        if let Some(t) = m.addr(target) {
            if let Some((need, name)) = classify(m, &t, msg) {
                let authorised = satisfies(m, &need, ctx.sender);
                cov.case(
                    "C14",
                    format!("{}|{}|{}|raw", name, role_of(m, ctx.sender), ctx.outcome.tag()),
                );
                if !authorised {
                    cov.eval("C14", "a");
                    if ctx.outcome.is_ok() {
                        cov.violate(
                            "C14",
                            "a",
                            "unauthorised-call-accepted",
                            ctx.ev.seq,
                            format!("{} from {} ({}) succeeded", name, ctx.sender, role_of(m, ctx.sender)),
                        );
                    }
                }
            }
        }
    }
    // ---- C16 creation rules
    if let Op::CreatePair { assets, .. } = &ctx.ev.op {
        let a = m.asset_info(&assets[0]);
        let b = m.asset_info(&assets[1]);
        if let (Some(a), Some(b)) = (a, b) {
            let dup = m.pair_for(&a, &b).is_some();
            let same = a == b;
            let live = |r: &AssetRef| -> bool {
                match r {
                    AssetRef::Native(d) => m.natives.contains_key(d),
                    AssetRef::Token(i) => *i < m.tokens.len(),
                    AssetRef::Lp(i) => *i < m.pairs.len(),
                    AssetRef::Raw(addr) => {
                        ctx.view.ledger.cw20s.contains(addr) || *addr == m.rogue
                    }
                }
            };
            let shape = |r: &AssetRef| match r {
                AssetRef::Native(_) => "n",
                AssetRef::Token(_) => "c",
                AssetRef::Lp(_) => "l",
                AssetRef::Raw(_) => "r",
            };
            let name_shape = {
                let ids: Vec<String> = [&a, &b].iter().map(|x| x.to_string()).collect();
                let known: Vec<String> = m
                    .pairs
                    .iter()
                    .flat_map(|p| p.infos.iter().map(|i| i.to_string()))
                    .collect();
                let mut sorted = ids.clone();
                sorted.sort();
                let concat = sorted.concat();
                let collides = m.pairs.iter().any(|p| {
                    let mut k: Vec<String> = p.infos.iter().map(|i| i.to_string()).collect();
                    k.sort();
                    k.concat() == concat && k != sorted
                });
                if collides {
                    "concat-collision"
                } else if ids.iter().any(|x| known.iter().any(|k| k != x && (k.starts_with(x.as_str()) || x.starts_with(k.as_str())))) {
                    "shared-prefix"
                } else {
                    "plain"
                }
            };
            cov.case(
                "C16",
                format!(
                    "create|{}|{}{}|dup{}|same{}|live{}{}|{}",
                    name_shape,
                    shape(&assets[0]),
                    shape(&assets[1]),
                    dup,
                    same,
                    live(&assets[0]),
                    live(&assets[1]),
                    ctx.outcome.tag()
                ),
            );
            if ctx.outcome.is_ok() {
                cov.eval("C16", "d");
                if dup || same {
                    cov.violate(
                        "C16",
                        "d",
                        if same { "identical-assets-accepted" } else { "duplicate-set-accepted" },
                        ctx.ev.seq,
                        format!("create_pair [{}, {}] succeeded", a, b),
                    );
                }
                cov.eval("C16", "e");
                if !live(&assets[0]) || !live(&assets[1]) {
                    cov.violate(
                        "C16",
                        "e",
                        "invalid-asset-accepted",
                        ctx.ev.seq,
                        format!("create_pair [{}, {}] succeeded with an unregistered / dead asset", a, b),
                    );
                }
            }
        }
    }
}

fn set_eq(a: &[AssetInfo; 2], b: &[AssetInfo; 2]) -> bool {
    (a[0] == b[0] && a[1] == b[1]) || (a[0] == b[1] && a[1] == b[0])
}

/// Factory registry vs each pair's self-description vs the reference model (C16, C17).
pub fn audit_registry(sim: &Sim, seq: u64, cov: &mut Cover) {
    let m = &sim.model;
    let bucket = match m.pairs.len() {
        0 => "0",
        1..=9 => "1-9",
        10 => "10",
        11..=29 => "11-29",
        30 => "30",
        31..=40 => "31-40",
        41..=60 => "41-60",
        _ => "61+",
    };
    // C14.c: the factory's own Config query names the owner the history made
    cov.eval("C14", "c");
    match sim.query::<haloswap::factory::ConfigResponse, _>(&m.factory, &haloswap::factory::QueryMsg::Config {}) {
        Ok(c) if c.owner == m.owner => {}
        other => cov.violate(
            "C14",
            "c",
            "config-owner-diverges",
            seq,
            format!("factory Config reports owner {:?}, ownership history says {}", other.map(|c| c.owner), m.owner),
        ),
    }
    // C17.a: denom query
    for (denom, dec) in &m.natives {
        cov.eval("C17", "a");
        match sim.query::<haloswap::factory::NativeTokenDecimalsResponse, _>(
            &m.factory,
            &haloswap::factory::QueryMsg::NativeTokenDecimals {
                denom: denom.clone(),
            },
        ) {
            Ok(r) if r.decimals == *dec => {}
            other => cov.violate(
                "C17",
                "a",
                "denom-query-stale",
                seq,
                format!("factory decimals of {}: {:?}, model {}", denom, other.map(|r| r.decimals), dec),
            ),
        }
    }
    for (i, p) in m.pairs.iter().enumerate() {
        let own: Result<PairInfo, String> = sim.query(&p.addr, &haloswap::pair::QueryMsg::Pair {});
        let mut frec: Option<PairInfo> = None;
        for order in 0..2 {
            let infos = if order == 0 {
                [p.infos[0].clone(), p.infos[1].clone()]
            } else {
                [p.infos[1].clone(), p.infos[0].clone()]
            };
            cov.eval("C16", "a");
            match sim.query::<PairInfo, _>(
                &m.factory,
                &haloswap::factory::QueryMsg::Pair { asset_infos: infos },
            ) {
                Ok(r) => {
                    if r.contract_addr != p.addr {
                        cov.violate(
                            "C16",
                            "a",
                            "lookup-returns-other-pair",
                            seq,
                            format!(
                                "lookup of pair #{} [{}, {}] (order {}) returned {} instead of {}",
                                i, p.infos[0], p.infos[1], order, r.contract_addr, p.addr
                            ),
                        );
                    }
                    if frec.is_none() {
                        frec = Some(r);
                    }
                }
                Err(e) => cov.violate(
                    "C16",
                    "a",
                    "lookup-fails",
                    seq,
                    format!("lookup of pair #{} [{}, {}] (order {}) failed: {}", i, p.infos[0], p.infos[1], order, e),
                ),
            }
        }
        let nat_pos: Vec<usize> = (0..2)
            .filter(|k| matches!(p.infos[*k], AssetInfo::NativeToken { .. }))
            .collect();
        cov.case(
            "C17",
            format!("{}|{}|natpos{:?}|den{}", bucket, p.kind(), nat_pos, m.natives.len()),
        );
        if let (Some(f), Ok(s)) = (&frec, &own) {
            cov.eval("C16", "b");
            let mut diffs = vec![];
            if !set_eq(&f.asset_infos, &s.asset_infos) || f.asset_infos != s.asset_infos {
                diffs.push("asset_infos");
            }
            if f.liquidity_token != s.liquidity_token {
                diffs.push("liquidity_token");
            }
            if f.requirements != s.requirements {
                diffs.push("requirements");
            }
            if f.commission_rate != s.commission_rate {
                diffs.push("commission_rate");
            }
            if !diffs.is_empty() {
                cov.violate(
                    "C16",
                    "b",
                    "factory-record-vs-pair",
                    seq,
                    format!("pair #{} {}: factory record and pair self-description differ in {:?}", i, p.addr, diffs),
                );
            }
            if f.asset_decimals != s.asset_decimals {
                cov.violate(
                    "C16",
                    "b",
                    "decimals-diverge",
                    seq,
                    format!(
                        "pair #{} {}: factory records decimals {:?}, pair reports {:?}",
                        i, p.addr, f.asset_decimals, s.asset_decimals
                    ),
                );
                cov.violate(
                    "C17",
                    "c",
                    "decimals-diverge",
                    seq,
                    format!(
                        "pair #{} {} (of {}): factory records decimals {:?}, pair reports {:?}",
                        i,
                        p.addr,
                        m.pairs.len(),
                        f.asset_decimals,
                        s.asset_decimals
                    ),
                );
            }
            // against the model
            if s.liquidity_token != p.lp || !set_eq(&s.asset_infos, &p.infos) {
                cov.violate(
                    "C16",
                    "b",
                    "pair-vs-model",
                    seq,
                    format!("pair #{} {} self-description does not match what was created", i, p.addr),
                );
            }
            if dec256_atoms(&s.commission_rate) != p.commission {
                cov.violate(
                    "C16",
                    "b",
                    "commission-vs-model",
                    seq,
                    format!("pair #{} commission {} != requested {}", i, s.commission_rate, p.commission),
                );
            }
            if !p.decimals.contains(&255) {
                // decimals in the pair's own asset order
                let want = if s.asset_infos == p.infos {
                    p.decimals
                } else {
                    [p.decimals[1], p.decimals[0]]
                };
                cov.eval("C17", "b");
                cov.eval("C16", "f");
                let fwant = if f.asset_infos == p.infos { p.decimals } else { [p.decimals[1], p.decimals[0]] };
                if f.asset_decimals != fwant {
                    cov.violate(
                        "C17",
                        "b",
                        "factory-record-stale",
                        seq,
                        format!(
                            "pair #{} (of {}) factory record decimals {:?}, expected {:?}",
                            i,
                            m.pairs.len(),
                            f.asset_decimals,
                            fwant
                        ),
                    );
                }
                cov.eval("C17", "c");
                if s.asset_decimals != want {
                    cov.violate(
                        "C17",
                        "c",
                        "pair-self-stale",
                        seq,
                        format!(
                            "pair #{} (of {}) reports decimals {:?}, expected {:?}",
                            i,
                            m.pairs.len(),
                            s.asset_decimals,
                            want
                        ),
                    );
                }
            }
        } else if let Err(e) = &own {
            cov.violate("C16", "b", "pair-query-fails", seq, format!("pair #{} Pair{{}} failed: {}", i, e));
        }
    }
    // C16.c: unregistered sets never resolve to a pair
    let mut assets: Vec<AssetInfo> = m
        .denoms
        .iter()
        .map(|d| AssetInfo::NativeToken { denom: d.clone() })
        .collect();
    for t in &m.tokens {
        assets.push(AssetInfo::Token {
            contract_addr: t.clone(),
        });
    }
    for i in 0..assets.len() {
        for j in (i + 1)..assets.len() {
            if m.pair_for(&assets[i], &assets[j]).is_some() {
                continue;
            }
            cov.eval("C16", "c");
            if let Ok(r) = sim.query::<PairInfo, _>(
                &m.factory,
                &haloswap::factory::QueryMsg::Pair {
                    asset_infos: [assets[i].clone(), assets[j].clone()],
                },
            ) {
                cov.violate(
                    "C16",
                    "c",
                    "lookup-resolves-foreign-set",
                    seq,
                    format!(
                        "lookup of the unregistered set [{}, {}] returned pair {} of [{}, {}]",
                        assets[i], assets[j], r.contract_addr, r.asset_infos[0], r.asset_infos[1]
                    ),
                );
            }
        }
    }
}
